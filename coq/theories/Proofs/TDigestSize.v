(* Proofs/TDigestSize.v — property C04 (size part) for the t-digest model over exact rationals:
   the greedy merge pass [greedy] / [td_merge] of Model/TDigest.v, instance [QNum] of Model/TDigestQ.v.

   Contents
     1. elementary facts about [greedy] (weight conservation, positivity, head weight)
     2. abstract scale function (f, lim): [greedy_pairs], [greedy_length], [greedy_width]
     3. lift to [td_merge], [td_insert_weighted] and whole histories ([td_steps_size])
     4. the K0 instance ([k0_size], [k0_history_size], ...)
     5. examples by [vm_compute]
   Everything is axiom-free ([Print Assumptions] at the end). *)
From PDS Require Import Model.TDigestQ.
From Coq Require Import QArith Qminmax Lqa Lia List Permutation.
Import ListNotations.
Open Scope Q_scope.

(* ------------------------------------------------------------------------------------------ *)
(** * 0. Small helpers *)

Arguments tcent {_} _. Arguments tback {_} _. Arguments tn {_} _. Arguments tmn {_} _. Arguments tmx {_} _. Arguments tmaxb {_} _.

Definition qc := (Q * Q)%type.            (* = centroid QNum, (sum, count) *)
Definition posc (c : qc) : Prop := 0 < snd c.
(* total weight, as a right fold (the model's [total] is a left fold; [total_wsum] relates them) *)
Fixpoint wsum (l : list qc) : Q := match l with [] => 0 | c :: t => snd c + wsum t end.

Lemma total_wsum_gen (l : list qc) (a : Q) :
  fold_left (fun (a : Q) (c : qc) => a + snd c) l a == a + wsum l.
Proof. revert a. induction l as [|c t IH]; intros a; simpl.
  - lra.
  - rewrite IH. lra. Qed.

Lemma total_wsum (l : list qc) : total QNum l == wsum l.
Proof. unfold total. change (fold_left (fun (a : Q) (c : qc) => a + snd c) l 0 == wsum l).
  rewrite total_wsum_gen. lra. Qed.

Lemma wsum_nonneg l : Forall posc l -> 0 <= wsum l.
Proof. induction 1 as [|c t Hc Ht IH]; simpl; [lra|]. unfold posc in Hc. lra. Qed.

Lemma wsum_pos c l : Forall posc (c :: l) -> 0 < wsum (c :: l).
Proof. intros H. inversion H as [|? ? Hc Ht]; subst. apply wsum_nonneg in Ht. unfold posc in Hc. simpl. lra. Qed.

Lemma wsum_app l1 l2 : wsum (l1 ++ l2) == wsum l1 + wsum l2.
Proof. induction l1 as [|c t IH]; simpl; [lra|]. rewrite IH. lra. Qed.

Lemma injZ_S (k : nat) : inject_Z (Z.of_nat (S k)) == 1 + inject_Z (Z.of_nat k).
Proof. rewrite Nat2Z.inj_succ. unfold Z.succ. rewrite inject_Z_plus. change (inject_Z 1) with 1. lra. Qed.

(* unfolding equation of [greedy] at the Q instance, in plain Q operations *)
Lemma greedy_cons lim n (s q0 qlim : Q) (cur nx : qc) (r : list qc) :
  greedy QNum lim n s q0 qlim cur (nx :: r) =
  if Qle_bool (q0 + (snd cur + snd nx) / s) qlim
  then greedy QNum lim n s q0 qlim (fst cur + fst nx, snd cur + snd nx) r
  else cur :: greedy QNum lim n s (q0 + snd cur / s) (lim n (q0 + snd cur / s)) nx r.
Proof. reflexivity. Qed.

Lemma greedy_nil lim n (s q0 qlim : Q) (cur : qc) : greedy QNum lim n s q0 qlim cur [] = [cur].
Proof. reflexivity. Qed.

(* ------------------------------------------------------------------------------------------ *)
(** * 1. Facts about [greedy] that hold for every [lim] *)

Section GreedyBasic.
Variable lim : N -> Q -> Q.

(* weight conservation *)
Lemma greedy_wsum n (s : Q) (rest : list qc) : forall (q0 qlim : Q) (cur : qc),
  wsum (greedy QNum lim n s q0 qlim cur rest) == snd cur + wsum rest.
Proof. induction rest as [|nx r IH]; intros q0 qlim cur.
  - rewrite greedy_nil. simpl. lra.
  - rewrite greedy_cons. destruct (Qle_bool _ _).
    + rewrite IH. simpl. lra.
    + simpl. rewrite IH. lra. Qed.

(* sum conservation (not needed for the size bound; recorded because it is free) *)
Fixpoint ssum (l : list qc) : Q := match l with [] => 0 | c :: t => fst c + ssum t end.
Lemma greedy_ssum n (s : Q) (rest : list qc) : forall (q0 qlim : Q) (cur : qc),
  ssum (greedy QNum lim n s q0 qlim cur rest) == fst cur + ssum rest.
Proof. induction rest as [|nx r IH]; intros q0 qlim cur.
  - rewrite greedy_nil. simpl. lra.
  - rewrite greedy_cons. destruct (Qle_bool _ _).
    + rewrite IH. simpl. lra.
    + simpl. rewrite IH. lra. Qed.

(* counts stay positive *)
Lemma greedy_pos n (s : Q) (rest : list qc) : forall (q0 qlim : Q) (cur : qc),
  posc cur -> Forall posc rest -> Forall posc (greedy QNum lim n s q0 qlim cur rest).
Proof. induction rest as [|nx r IH]; intros q0 qlim cur Hc Hr.
  - rewrite greedy_nil. constructor; [assumption|constructor].
  - inversion Hr as [|? ? Hnx Hr']; subst. rewrite greedy_cons. destruct (Qle_bool _ _).
    + apply IH; [|assumption]. unfold posc in *. simpl. lra.
    + constructor; [assumption|]. apply IH; assumption. Qed.

(* the output is never empty, and its first centroid weighs at least [cur] *)
Lemma greedy_hd n (s : Q) (rest : list qc) : forall (q0 qlim : Q) (cur : qc), Forall posc rest ->
  exists (c : qc) (t : list qc), greedy QNum lim n s q0 qlim cur rest = c :: t /\ snd cur <= snd c.
Proof. induction rest as [|nx r IH]; intros q0 qlim cur Hr.
  - rewrite greedy_nil. exists cur, []. split; [reflexivity|lra].
  - inversion Hr as [|? ? Hnx Hr']; subst. rewrite greedy_cons. destruct (Qle_bool _ _).
    + destruct (IH q0 qlim (fst cur + fst nx, snd cur + snd nx) Hr') as (c & t & E & Hle).
      exists c, t. split; [assumption|]. unfold posc in Hnx. simpl in Hle. lra.
    + eexists _, _. split; [reflexivity|lra]. Qed.

(* the output is no longer than the input *)
Lemma greedy_length_le n (s : Q) (rest : list qc) : forall (q0 qlim : Q) (cur : qc),
  (length (greedy QNum lim n s q0 qlim cur rest) <= S (length rest))%nat.
Proof. induction rest as [|nx r IH]; intros q0 qlim cur.
  - rewrite greedy_nil. simpl. lia.
  - rewrite greedy_cons. destruct (Qle_bool _ _); simpl.
    + specialize (IH q0 qlim (fst cur + fst nx, snd cur + snd nx)). lia.
    + specialize (IH (q0 + snd cur / s) (lim n (q0 + snd cur / s)) nx). lia. Qed.
End GreedyBasic.

(* ------------------------------------------------------------------------------------------ *)
(** * 2. Abstract scale function *)

Section Abstract.
Variable f : Q -> Q.
Variable lim : N -> Q -> Q.
(* f is non-decreasing on [0,1] *)
Hypothesis Hmono : forall a b, 0 <= a -> a <= b -> b <= 1 -> f a <= f b.
(* exceeding the limit computed at q0 means the k-scale advanced by more than 1 *)
Hypothesis Hlim : forall n q0 q, 0 <= q0 -> q0 <= q -> q <= 1 -> lim n q0 < q -> f q0 + 1 < f q.

Section FixedS.
Variable s : Q.
Hypothesis Hs : 0 < s.

Lemma div_add a b : (a + b) / s == a / s + b / s.
Proof. field. lra. Qed.
Lemma div_pos a : 0 < a -> 0 < a / s.
Proof. intros H. apply Qlt_shift_div_l; lra. Qed.
Lemma div_nonneg a : 0 <= a -> 0 <= a / s.
Proof. intros H. apply Qle_shift_div_l; lra. Qed.
Lemma div_le a b : a <= b -> a / s <= b / s.
Proof. intros H. unfold Qdiv. apply Qmult_le_compat_r; [assumption|]. apply Qlt_le_weak, Qinv_lt_0_compat, Hs. Qed.

(* the quantile edges of an emitted list that starts at quantile q0:
   [edges q0 [C_0;...;C_m] = [Q_0; Q_1; ...; Q_{m+1}]], Q_0 = q0, Q_{i+1} = Q_i + count C_i / s *)
Fixpoint edges (q0 : Q) (out : list qc) : list Q :=
  match out with [] => [q0] | c :: t => q0 :: edges (q0 + snd c / s) t end.

Lemma edges_length q0 out : length (edges q0 out) = S (length out).
Proof. revert q0. induction out as [|c t IH]; intros q0; simpl; [reflexivity|]. rewrite IH. reflexivity. Qed.

Lemma edges_hd q0 out : exists t, edges q0 out = q0 :: t.
Proof. destruct out; simpl; eexists; reflexivity. Qed.

Lemma edges_bounds out : forall q0, Forall posc out ->
  Forall (fun x => q0 <= x /\ x <= q0 + wsum out / s) (edges q0 out).
Proof. induction out as [|c t IH]; intros q0 Hp; simpl.
  - constructor; [|constructor]. assert (H := div_nonneg 0). lra.
  - inversion Hp as [|? ? Hc Ht]; subst. unfold posc in Hc.
    assert (Hw := wsum_nonneg _ Ht). assert (H1 := div_pos _ Hc). assert (H2 := div_nonneg _ Hw).
    assert (H3 := div_add (snd c) (wsum t)).
    constructor; [lra|]. specialize (IH (q0 + snd c / s) Ht).
    eapply Forall_impl; [|exact IH]. cbv beta. intros x [Hx1 Hx2]. lra. Qed.

(* every left edge Q_i and the edge two places further satisfy f(Q_i) + 1 < f(Q_{i+2}) *)
Fixpoint pairs_ok (E : list Q) : Prop :=
  match E with
  | [] => True
  | a :: t => match t with _ :: c :: _ => f a + 1 < f c | _ => True end /\ pairs_ok t
  end.

Lemma pairs_ok_nth E : pairs_ok E -> forall i, (S (S i) < length E)%nat -> f (nth i E 0) + 1 < f (nth (S (S i)) E 0).
Proof. induction E as [|a t IH]; intros HP i Hi; simpl in Hi; [lia|].
  destruct HP as [H0 HP]. destruct i as [|i].
  - destruct t as [|b [|c t']]; simpl in Hi; try lia. exact H0.
  - change (f (nth i t 0) + 1 < f (nth (S (S i)) t 0)). apply IH; [assumption|lia]. Qed.

(** [greedy_pairs], general state: the pass is at left edge q0 with the invariant qlim = lim n q0. *)
Lemma greedy_pairs_gen n (rest : list qc) : forall (q0 : Q) (cur : qc),
  0 <= q0 -> posc cur -> Forall posc rest -> q0 + (snd cur + wsum rest) / s <= 1 ->
  pairs_ok (edges q0 (greedy QNum lim n s q0 (lim n q0) cur rest)).
Proof. induction rest as [|nx r IH]; intros q0 cur Hq0 Hc Hr Hle.
  - rewrite greedy_nil. simpl. auto.
  - inversion Hr as [|? ? Hnx Hr']; subst. unfold posc in Hc, Hnx. simpl in Hle.
    rewrite greedy_cons. destruct (Qle_bool _ _) eqn:E.
    + apply IH; try assumption.
      * unfold posc. simpl. lra.
      * simpl. assert (H := div_add (snd cur + snd nx) (wsum r)). assert (H' := div_add (snd cur) (snd nx + wsum r)).
        assert (H'' := div_add (snd cur) (snd nx)). assert (H3 := div_add (snd nx) (wsum r)). lra.
    + assert (Hex : ~ q0 + (snd cur + snd nx) / s <= lim n q0) by (rewrite <- Qle_bool_iff; congruence).
      set (q1 := q0 + snd cur / s).
      assert (Hcs := div_pos _ Hc). assert (Hq1 : 0 <= q1) by (unfold q1; lra).
      assert (Hle1 : q1 + (snd nx + wsum r) / s <= 1).
      { unfold q1. assert (H' := div_add (snd cur) (snd nx + wsum r)). lra. }
      assert (IH' := IH q1 nx Hq1 Hnx Hr' Hle1).
      destruct (greedy_hd lim n s r q1 (lim n q1) nx Hr') as (c1 & t1 & EG & Hc1).
      assert (HposG := greedy_pos lim n s r q1 (lim n q1) nx Hnx Hr').
      assert (HwG := greedy_wsum lim n s r q1 (lim n q1) nx).
      rewrite EG in *. simpl. split; [|exact IH'].
      destruct (edges_hd (q0 + snd cur / s + snd c1 / s) t1) as [t' Et]. rewrite Et.
      inversion HposG as [|? ? Hpc1 Hpt1]; subst. assert (Hwt := wsum_nonneg _ Hpt1). simpl in HwG.
      assert (D1 := div_add (snd cur) (snd nx)). assert (D2 := div_le _ _ Hc1).
      assert (D3 : snd c1 / s <= (snd nx + wsum r) / s) by (apply div_le; lra).
      unfold posc in Hpc1. assert (D4 := div_pos _ Hpc1).
      apply (Hlim n); unfold q1 in *; lra. Qed.

(** [greedy_pairs]: run from q0 = 0 on a list of total weight s with positive counts.
    With [E = edges 0 out = [Q_0; ...; Q_{m+1}]]: f(Q_i) + 1 < f(Q_{i+2}) whenever i+2 <= m+1. *)
Theorem greedy_pairs n (cur : qc) (rest : list qc) :
  Forall posc (cur :: rest) -> s == wsum (cur :: rest) ->
  let E := edges 0 (greedy QNum lim n s 0 (lim n 0) cur rest) in
  forall i, (S (S i) < length E)%nat -> f (nth i E 0) + 1 < f (nth (S (S i)) E 0).
Proof. intros Hp Hsum E. apply pairs_ok_nth. unfold E. inversion Hp; subst.
  apply greedy_pairs_gen; try assumption; [lra|]. simpl in Hsum. rewrite <- Hsum.
  assert (s / s == 1) by (field; lra). lra. Qed.

(* from the pair property to the length bound: a potential argument *)
Lemma pairs_len E : forall a b, pairs_ok (a :: b :: E) -> Forall (fun x => f x <= f 1) (a :: b :: E) ->
  inject_Z (Z.of_nat (length (a :: b :: E))) <= 2 * f 1 - f a - f b + 2.
Proof. induction E as [|c E' IH]; intros a b HP HF.
  - inversion HF as [|? ? Ha HF']; subst. inversion HF' as [|? ? Hb _]; subst.
    change (inject_Z (Z.of_nat (length [a; b]))) with 2. lra.
  - destruct HP as [Hac HP]. inversion HF as [|? ? Ha HF']; subst.
    specialize (IH b c HP HF').
    change (length (a :: b :: c :: E')) with (S (length (b :: c :: E'))). rewrite injZ_S. lra. Qed.

(** Length of the output of one greedy pass started at quantile 0: at most 2*(f 1 - f 0) + 1. *)
Theorem greedy_length n (cur : qc) (rest : list qc) :
  Forall posc (cur :: rest) -> s == wsum (cur :: rest) ->
  inject_Z (Z.of_nat (length (greedy QNum lim n s 0 (lim n 0) cur rest))) <= 2 * (f 1 - f 0) + 1.
Proof. intros Hp Hsum. inversion Hp as [|? ? Hc Hr]; subst. simpl in Hsum.
  assert (Hss : s / s == 1) by (field; lra).
  assert (HP : pairs_ok (edges 0 (greedy QNum lim n s 0 (lim n 0) cur rest))).
  { apply greedy_pairs_gen; try assumption; [lra|]. rewrite <- Hsum. lra. }
  assert (HposG := greedy_pos lim n s rest 0 (lim n 0) cur Hc Hr).
  assert (HwG := greedy_wsum lim n s rest 0 (lim n 0) cur).
  assert (HB := edges_bounds _ 0 HposG).
  assert (HF : Forall (fun x => f x <= f 1) (edges 0 (greedy QNum lim n s 0 (lim n 0) cur rest))).
  { eapply Forall_impl; [|exact HB]. cbv beta. intros x [Hx1 Hx2]. apply Hmono; try lra.
    rewrite HwG, <- Hsum in Hx2. lra. }
  assert (HL := edges_length 0 (greedy QNum lim n s 0 (lim n 0) cur rest)).
  destruct (greedy_hd lim n s rest 0 (lim n 0) cur Hr) as (c1 & t1 & EG & Hc1).
  rewrite EG in *. simpl in HP, HF, HL, HB.
  destruct (edges_hd (0 + snd c1 / s) t1) as [t' Et]. rewrite Et in *.
  assert (HPL := pairs_len t' 0 (0 + snd c1 / s) HP HF).
  cbn [length] in HPL, HL |- *. injection HL as HL.
  assert (HL' : @length (centroid QNum) t1 = length t') by (symmetry; exact HL). rewrite HL'. rewrite (injZ_S (S (length t'))) in HPL.
  assert (f 0 <= f (0 + snd c1 / s)).
  { inversion HB as [|? ? _ HB']; subst. inversion HB' as [|? ? [Hb1 Hb2] _]; subst.
    apply Hmono; try lra. rewrite HwG, <- Hsum in Hb2. lra. }
  revert HPL. generalize (inject_Z (Z.of_nat (S (length t')))). intros L HPL. lra. Qed.

(** Width: every output centroid either is one of the input centroids (emitted as is) or satisfies
    the width constraint at its left edge, Q_i + count C_i / s <= lim n Q_i. *)
Fixpoint width_ok (n : N) (inputs : list qc) (q0 : Q) (out : list qc) : Prop :=
  match out with
  | [] => True
  | c :: t => (In c inputs \/ q0 + snd c / s <= lim n q0) /\ width_ok n inputs (q0 + snd c / s) t
  end.

Lemma greedy_width_gen n (inputs rest : list qc) : forall (q0 : Q) (cur : qc),
  incl rest inputs -> (In cur inputs \/ q0 + snd cur / s <= lim n q0) ->
  width_ok n inputs q0 (greedy QNum lim n s q0 (lim n q0) cur rest).
Proof. induction rest as [|nx r IH]; intros q0 cur Hin Hcur.
  - rewrite greedy_nil. simpl. auto.
  - assert (Hnx : In nx inputs) by (apply Hin; left; reflexivity).
    assert (Hin' : incl r inputs) by (intros x Hx; apply Hin; right; assumption).
    rewrite greedy_cons. destruct (Qle_bool _ _) eqn:E.
    + apply IH; [assumption|]. right. apply Qle_bool_iff in E. exact E.
    + simpl. split; [assumption|]. apply IH; [assumption|]. left. assumption. Qed.

Theorem greedy_width n (cur : qc) (rest : list qc) :
  width_ok n (cur :: rest) 0 (greedy QNum lim n s 0 (lim n 0) cur rest).
Proof. apply greedy_width_gen; [apply incl_tl, incl_refl | left; left; reflexivity]. Qed.

Lemma width_ok_nth n inputs (out : list qc) : forall (q0 : Q), width_ok n inputs q0 out ->
  forall i (c : qc), nth_error out i = Some c ->
  In c inputs \/ nth i (edges q0 out) 0 + snd c / s <= lim n (nth i (edges q0 out) 0).
Proof. induction out as [|c0 t IH]; intros q0 HW i c Hi.
  - destruct i; discriminate.
  - destruct HW as [H0 HW]. destruct i as [|i]; simpl in Hi.
    + inversion Hi; subst. simpl. exact H0.
    + simpl. apply IH; assumption. Qed.

(** index form: the i-th output centroid C_i with left edge Q_i *)
Theorem merge_width n (cur : qc) (rest : list qc) i (c : qc) :
  let out := greedy QNum lim n s 0 (lim n 0) cur rest in
  nth_error out i = Some c ->
  In c (cur :: rest) \/ nth i (edges 0 out) 0 + snd c / s <= lim n (nth i (edges 0 out) 0).
Proof. intros out Hi. eapply width_ok_nth; [apply greedy_width|exact Hi]. Qed.

End FixedS.

(* ------------------------------------------------------------------------------------------ *)
(** * 3. Lift to [td_merge], inserts and histories *)

Definition Bnd : Q := 2 * (f 1 - f 0) + 1.

Lemma Bnd_ge1 : 1 <= Bnd.
Proof. unfold Bnd. assert (f 0 <= f 1) by (apply Hmono; lra). lra. Qed.

(* the stable sort only permutes *)
Lemma sinsert_perm (e : Q * qc) (l : list (Q * qc)) : Permutation (sinsert QNum e l) (e :: l).
Proof. induction l as [|y r IH]; simpl; [reflexivity|]. match goal with |- context [if ?b then _ else _] => destruct b end; [reflexivity|].
  rewrite IH. apply perm_swap. Qed.

Lemma ssort_perm_gen (l : list (Q * qc)) : forall acc : list (Q * qc),
  Permutation (fold_left (fun acc e => sinsert QNum e acc) l acc) (l ++ acc).
Proof. induction l as [|e t IH]; intros acc; simpl; [reflexivity|].
  rewrite IH. rewrite sinsert_perm. symmetry. apply Permutation_middle. Qed.

Lemma ssort_perm (l : list (Q * qc)) : Permutation (ssort QNum l) l.
Proof. unfold ssort. rewrite ssort_perm_gen. rewrite app_nil_r. reflexivity. Qed.

Definition sorted_input (d : qtd) : list qc :=
  map snd (ssort QNum (map (fun c : qc => (cmean QNum c, c)) (tcent d ++ tback d))).

Lemma sorted_input_perm (d : qtd) : Permutation (sorted_input d) (tcent d ++ tback d).
Proof. unfold sorted_input. rewrite ssort_perm. rewrite map_map. simpl. rewrite map_id. reflexivity. Qed.

Lemma td_merge_eq (d : qtd) :
  td_merge QNum lim d =
  match tback d with
  | [] => d
  | _ => match sorted_input d with
         | [] => d
         | c0 :: r => {| tcent := greedy QNum lim (tn d) (total QNum (sorted_input d)) 0 (lim (tn d) 0) c0 r;
                         tn := tn d; tmn := tmn d; tmx := tmx d; tback := []; tmaxb := tmaxb d |}
         end
  end.
Proof. reflexivity. Qed.

(* the invariant carried through a history *)
Definition size_inv (d : qtd) : Prop :=
  Forall posc (tcent d) /\ Forall posc (tback d) /\ inject_Z (Z.of_nat (length (tcent d))) <= Bnd.

Lemma size_inv_new maxb : size_inv (td_new QNum maxb).
Proof. unfold size_inv; simpl. repeat split; try constructor. change (inject_Z 0) with 0. assert (H := Bnd_ge1). lra. Qed.

(** one merge: whatever the state (positive counts), the merged digest has <= Bnd centroids *)
Theorem td_merge_size (d : qtd) : Forall posc (tcent d) -> Forall posc (tback d) -> tback d <> [] ->
  inject_Z (Z.of_nat (length (tcent (td_merge QNum lim d)))) <= Bnd.
Proof. intros Hc Hb Hne. rewrite td_merge_eq. destruct (tback d) as [|b0 bt] eqn:Eb; [congruence|].
  assert (HP : Forall posc (sorted_input d)).
  { eapply Permutation_Forall; [symmetry; apply sorted_input_perm|]. rewrite Eb. apply Forall_app; split; assumption. }
  destruct (sorted_input d) as [|c0 r] eqn:Es.
  - exfalso. assert (H := sorted_input_perm d). rewrite Es, Eb in H. apply Permutation_nil in H.
    destruct (tcent d); discriminate.
  - simpl tcent. unfold Bnd. apply greedy_length.
    + rewrite total_wsum. apply wsum_pos. assumption.
    + assumption.
    + apply total_wsum. Qed.

Lemma td_merge_inv (d : qtd) : size_inv d -> size_inv (td_merge QNum lim d).
Proof. intros (Hc & Hb & Hl). destruct (tback d) as [|b0 bt] eqn:Eb.
  - rewrite td_merge_eq, Eb. repeat split; try assumption. rewrite Eb. constructor.
  - rewrite <- Eb in Hb. assert (Hne : tback d <> []) by congruence. assert (HS := td_merge_size d Hc Hb Hne).
    revert HS. rewrite td_merge_eq, Eb.
    assert (HP : Forall posc (sorted_input d)).
    { eapply Permutation_Forall; [symmetry; apply sorted_input_perm|]. apply Forall_app; split; assumption. }
    destruct (sorted_input d) as [|c0 r] eqn:Es; intros HS.
    + repeat split; assumption.
    + inversion HP; subst. repeat split; simpl; [apply greedy_pos; assumption | constructor | exact HS]. Qed.

Lemma td_insert_inner_inv (d : qtd) (x w : Q) : size_inv d -> 0 < w -> size_inv (td_insert_inner QNum lim d x w).
Proof. intros (Hc & Hb & Hl) Hw. unfold td_insert_inner.
  match goal with |- size_inv (if _ then td_merge _ _ ?d1 else _) => assert (H1 : size_inv d1) end.
  { repeat split; simpl; try assumption. apply Forall_app; split; [assumption|]. constructor; [exact Hw|constructor]. }
  destruct (_ <? _)%N; [apply td_merge_inv|]; exact H1. Qed.

Lemma td_insert_weighted_inv (d : qtd) (x w : Q) : size_inv d -> 0 <= w -> size_inv (td_insert_weighted QNum lim d x w).
Proof. intros Hd Hw. unfold td_insert_weighted.
  change (aleb QNum w (azero QNum)) with (Qle_bool w 0). change (aleb QNum (azero QNum) w) with (Qle_bool 0 w).
  destruct (Qle_bool w 0) eqn:E1; simpl.
  - assert (E2 : Qle_bool 0 w = true) by (apply Qle_bool_iff; exact Hw). rewrite E2. exact Hd.
  - apply td_insert_inner_inv; [exact Hd|]. assert (~ w <= 0) by (rewrite <- Qle_bool_iff; congruence). lra. Qed.

(* histories: inserts, explicit merges (every public read merges first) and clear *)
Inductive qop := OpInsert (x w : Q) | OpMerge | OpClear.
Definition op_ok (o : qop) : Prop := match o with OpInsert _ w => 0 <= w | _ => True end.
Definition apply_op (d : qtd) (o : qop) : qtd :=
  match o with
  | OpInsert x w => td_insert_weighted QNum lim d x w
  | OpMerge => td_merge QNum lim d
  | OpClear => td_clear QNum d
  end.
Definition td_steps (maxb : N) (h : list qop) : qtd := fold_left apply_op h (td_new QNum maxb).

Lemma apply_op_inv d o : size_inv d -> op_ok o -> size_inv (apply_op d o).
Proof. intros Hd Ho. destruct o as [x w| |]; simpl.
  - apply td_insert_weighted_inv; assumption.
  - apply td_merge_inv; assumption.
  - apply size_inv_new. Qed.

Lemma td_steps_inv maxb h : Forall op_ok h -> size_inv (td_steps maxb h).
Proof. unfold td_steps. generalize (size_inv_new maxb). generalize (td_new QNum maxb).
  induction h as [|o t IH]; intros d Hd Hh; simpl; [exact Hd|].
  inversion Hh; subst. apply IH; [apply apply_op_inv|]; assumption. Qed.

(** at any time of any history (non-negative weights, any maxb) the digest holds <= Bnd centroids,
    and positive counts only *)
Theorem td_steps_size maxb h : Forall op_ok h ->
  inject_Z (Z.of_nat (length (tcent (td_steps maxb h)))) <= Bnd.
Proof. intros Hh. apply (td_steps_inv maxb h Hh). Qed.

Theorem td_steps_merge_size maxb h : Forall op_ok h ->
  inject_Z (Z.of_nat (length (tcent (td_merge QNum lim (td_steps maxb h))))) <= Bnd.
Proof. intros Hh. apply (td_merge_inv _ (td_steps_inv maxb h Hh)). Qed.

Theorem td_steps_ncentroids maxb h : Forall op_ok h ->
  inject_Z (Z.of_N (snd (td_ncentroids QNum lim (td_steps maxb h)))) <= Bnd.
Proof. intros Hh. unfold td_ncentroids, lenN. simpl snd. rewrite nat_N_Z. apply td_steps_merge_size, Hh. Qed.

Theorem td_steps_pos maxb h : Forall op_ok h ->
  Forall posc (tcent (td_steps maxb h)) /\ Forall posc (tback (td_steps maxb h)).
Proof. intros Hh. destruct (td_steps_inv maxb h Hh) as (H1 & H2 & _). split; assumption. Qed.

End Abstract.

(* ------------------------------------------------------------------------------------------ *)
(** * 4. The K0 scale function *)

Lemma k0_lim_def delta n q0 : k0_lim delta n q0 = k0_finv delta (k0_f delta q0 + 1).
Proof. reflexivity. Qed.

Lemma k0_f_in delta q : 0 <= q -> q <= 1 -> k0_f delta q == delta / 2 * q.
Proof. intros H0 H1. unfold k0_f. rewrite (Q.min_l q 1) by assumption. rewrite (Q.max_r 0 q) by assumption. reflexivity. Qed.

Lemma k0_f_0 delta : k0_f delta 0 == 0.
Proof. rewrite k0_f_in by lra. lra. Qed.
Lemma k0_f_1 delta : k0_f delta 1 == delta / 2.
Proof. rewrite k0_f_in by lra. lra. Qed.

Lemma k0_mono delta : 0 < delta -> forall a b, 0 <= a -> a <= b -> b <= 1 -> k0_f delta a <= k0_f delta b.
Proof. intros Hd a b Ha Hab Hb. rewrite !k0_f_in by lra.
  assert (0 < delta / 2) by (apply Qlt_shift_div_l; lra). nra. Qed.

(* closed form of the limit on [0,1]: one k-unit is 2/delta in q-space *)
Lemma k0_lim_in delta n q0 : 0 < delta -> 0 <= q0 -> q0 <= 1 -> k0_lim delta n q0 == Qmin (q0 + 2 / delta) 1.
Proof. intros Hd H0 H1. unfold k0_lim, k0_finv. rewrite k0_f_in by assumption.
  assert (Hh : 0 < delta / 2) by (apply Qlt_shift_div_l; lra).
  assert (Hk : 0 <= delta / 2 * q0) by nra.
  destruct (Q.min_spec (delta / 2 * q0 + 1) (delta / 2)) as [[Hlt Em]|[Hle Em]]; rewrite Em.
  - rewrite Q.max_r by lra.
    assert (E : (delta / 2 * q0 + 1) * 2 / delta == q0 + 2 / delta) by (field; lra). rewrite E.
    rewrite Q.min_l; [reflexivity|].
    assert (E2 : q0 + 2 / delta == (delta / 2 * q0 + 1) / (delta / 2)) by (field; lra).
    rewrite E2. apply Qle_shift_div_r; lra.
  - rewrite Q.max_r by lra.
    assert (E : delta / 2 * 2 / delta == 1) by (field; lra). rewrite E.
    rewrite Q.min_r; [reflexivity|].
    assert (E2 : q0 + 2 / delta == (delta / 2 * q0 + 1) / (delta / 2)) by (field; lra).
    rewrite E2. apply Qle_shift_div_l; lra. Qed.

Lemma k0_lim_exceed delta : 0 < delta -> forall n q0 q,
  0 <= q0 -> q0 <= q -> q <= 1 -> k0_lim delta n q0 < q -> k0_f delta q0 + 1 < k0_f delta q.
Proof. intros Hd n q0 q H0 H01 H1 Hex. rewrite k0_lim_in in Hex by lra. rewrite !k0_f_in by lra.
  destruct (Q.min_spec (q0 + 2 / delta) 1) as [[Hlt Em]|[Hle Em]]; rewrite Em in Hex; [|lra].
  assert (Hh : 0 < delta / 2) by (apply Qlt_shift_div_l; lra).
  assert (E : delta / 2 * q0 + 1 == delta / 2 * (q0 + 2 / delta)) by (field; lra).
  rewrite E. apply Qmult_lt_l; assumption. Qed.

Lemma k0_Bnd delta : 0 < delta -> Bnd (k0_f delta) == delta + 1.
Proof. intros Hd. unfold Bnd. rewrite k0_f_0, k0_f_1. field. Qed.

(** one greedy pass with K0: at most delta + 1 centroids *)
Theorem k0_size delta n (c0 : qc) (rest : list qc) : 0 < delta -> Forall posc (c0 :: rest) ->
  inject_Z (Z.of_nat (length (greedy QNum (k0_lim delta) n (total QNum (c0 :: rest)) 0 (k0_lim delta n 0) c0 rest))) <= delta + 1.
Proof. intros Hd Hp. rewrite <- (k0_Bnd delta Hd). unfold Bnd.
  apply (greedy_length (k0_f delta) (k0_lim delta) (k0_mono delta Hd) (k0_lim_exceed delta Hd)).
  - rewrite total_wsum. apply wsum_pos, Hp.
  - exact Hp.
  - apply total_wsum. Qed.

(** one merge with K0 *)
Theorem k0_merge_size delta (d : qtd) : 0 < delta ->
  Forall posc (tcent d) -> Forall posc (tback d) -> tback d <> [] ->
  inject_Z (Z.of_nat (length (tcent (td_merge QNum (k0_lim delta) d)))) <= delta + 1.
Proof. intros Hd Hc Hb Hne. rewrite <- (k0_Bnd delta Hd).
  apply (td_merge_size (k0_f delta) (k0_lim delta) (k0_mono delta Hd) (k0_lim_exceed delta Hd)); assumption. Qed.

(** whole histories with K0: at every moment at most delta + 1 (hence <= delta + 3) centroids *)
Theorem k0_history_size delta maxb (h : list qop) : 0 < delta -> Forall op_ok h ->
  inject_Z (Z.of_nat (length (tcent (td_steps (k0_lim delta) maxb h)))) <= delta + 1.
Proof. intros Hd Hh. rewrite <- (k0_Bnd delta Hd).
  apply (td_steps_size (k0_f delta) (k0_lim delta) (k0_mono delta Hd) (k0_lim_exceed delta Hd)); assumption. Qed.

Theorem k0_history_merge_size delta maxb (h : list qop) : 0 < delta -> Forall op_ok h ->
  inject_Z (Z.of_nat (length (tcent (td_merge QNum (k0_lim delta) (td_steps (k0_lim delta) maxb h))))) <= delta + 1.
Proof. intros Hd Hh. rewrite <- (k0_Bnd delta Hd).
  apply (td_steps_merge_size (k0_f delta) (k0_lim delta) (k0_mono delta Hd) (k0_lim_exceed delta Hd)); assumption. Qed.

Theorem k0_history_ncentroids delta maxb (h : list qop) : 0 < delta -> Forall op_ok h ->
  inject_Z (Z.of_N (snd (td_ncentroids QNum (k0_lim delta) (td_steps (k0_lim delta) maxb h)))) <= delta + 1.
Proof. intros Hd Hh. rewrite <- (k0_Bnd delta Hd).
  apply (td_steps_ncentroids (k0_f delta) (k0_lim delta) (k0_mono delta Hd) (k0_lim_exceed delta Hd)); assumption. Qed.

(** property C04 (size part) in the form of the design document: 1 < delta, bound delta + 3 *)
Corollary C04_size delta maxb (h : list qop) : 1 < delta -> Forall op_ok h ->
  inject_Z (Z.of_nat (length (tcent (td_steps (k0_lim delta) maxb h)))) <= delta + 3 /\
  inject_Z (Z.of_nat (length (tcent (td_merge QNum (k0_lim delta) (td_steps (k0_lim delta) maxb h))))) <= delta + 3.
Proof. intros Hd Hh. assert (Hd' : 0 < delta) by lra.
  assert (H1 := k0_history_size delta maxb h Hd' Hh). assert (H2 := k0_history_merge_size delta maxb h Hd' Hh).
  split; lra. Qed.

(** K0 pair property and width in q-space *)
Theorem k0_pairs delta n (c0 : qc) (rest : list qc) : 0 < delta -> Forall posc (c0 :: rest) ->
  let s := total QNum (c0 :: rest) in
  let E := edges s 0 (greedy QNum (k0_lim delta) n s 0 (k0_lim delta n 0) c0 rest) in
  forall i, (S (S i) < length E)%nat -> nth i E 0 + 2 / delta < nth (S (S i)) E 0.
Proof. intros Hd Hp s E i Hi.
  assert (Hs : 0 < s) by (unfold s; rewrite total_wsum; apply wsum_pos, Hp).
  assert (HP := greedy_pairs (k0_f delta) (k0_lim delta) (k0_lim_exceed delta Hd) s Hs n c0 rest Hp (total_wsum _) i Hi).
  fold E in HP.
  assert (HB : Forall (fun x => 0 <= x /\ x <= 1) E).
  { unfold E. assert (HposG := greedy_pos (k0_lim delta) n s rest 0 (k0_lim delta n 0) c0).
    inversion Hp as [|? ? Hc Hr]; subst. specialize (HposG Hc Hr).
    assert (HB := edges_bounds s Hs _ 0 HposG). eapply Forall_impl; [|exact HB]. cbv beta. intros x [Hx1 Hx2].
    rewrite greedy_wsum in Hx2. assert (Ew : snd c0 + wsum rest == s) by (unfold s; rewrite total_wsum; reflexivity).
    rewrite Ew in Hx2. assert (s / s == 1) by (field; lra). lra. }
  rewrite Forall_forall in HB.
  assert (Ha : 0 <= nth i E 0 /\ nth i E 0 <= 1) by (apply HB, nth_In; lia).
  assert (Hb : 0 <= nth (S (S i)) E 0 /\ nth (S (S i)) E 0 <= 1) by (apply HB, nth_In; lia).
  rewrite !k0_f_in in HP by tauto.
  assert (Hh : 0 < delta / 2) by (apply Qlt_shift_div_l; lra).
  assert (Ee : delta / 2 * nth i E 0 + 1 == delta / 2 * (nth i E 0 + 2 / delta)) by (field; lra).
  rewrite Ee in HP. apply Qmult_lt_l in HP; assumption. Qed.

(** K0 width: an output centroid that is not one of the input centroids spans at most 2/delta in
    q-space (one unit of the k-scale) *)
Theorem k0_merge_width delta n (c0 : qc) (rest : list qc) i (c : qc) : 0 < delta -> Forall posc (c0 :: rest) ->
  let s := total QNum (c0 :: rest) in
  let out := greedy QNum (k0_lim delta) n s 0 (k0_lim delta n 0) c0 rest in
  nth_error out i = Some c ->
  In c (c0 :: rest) \/ snd c / s <= 2 / delta.
Proof. intros Hd Hp s out Hi.
  assert (Hs : 0 < s) by (unfold s; rewrite total_wsum; apply wsum_pos, Hp).
  destruct (merge_width (k0_lim delta) s n c0 rest i c Hi) as [HIn|HW]; [left; exact HIn|right].
  fold out in HW.
  assert (HB : Forall (fun x => 0 <= x /\ x <= 1) (edges s 0 out)).
  { unfold out. assert (HposG := greedy_pos (k0_lim delta) n s rest 0 (k0_lim delta n 0) c0).
    inversion Hp as [|? ? Hc Hr]; subst. specialize (HposG Hc Hr).
    assert (HB := edges_bounds s Hs _ 0 HposG). eapply Forall_impl; [|exact HB]. cbv beta. intros x [Hx1 Hx2].
    rewrite greedy_wsum in Hx2. assert (Ew : snd c0 + wsum rest == s) by (unfold s; rewrite total_wsum; reflexivity).
    rewrite Ew in Hx2. assert (s / s == 1) by (field; lra). lra. }
  rewrite Forall_forall in HB.
  assert (Hlen : (i < length (edges s 0 out))%nat).
  { rewrite edges_length. apply Nat.lt_lt_succ_r, nth_error_Some. intros HN. discriminate (eq_trans (eq_sym Hi) HN). }
  assert (Ha : 0 <= nth i (edges s 0 out) 0 /\ nth i (edges s 0 out) 0 <= 1) by (apply HB, nth_In; exact Hlen).
  rewrite k0_lim_in in HW by tauto.
  assert (Hm := Q.le_min_l (nth i (edges s 0 out) 0 + 2 / delta) 1). lra. Qed.

(* ------------------------------------------------------------------------------------------ *)
(** * 5. Examples *)

Definition unit_c (k : Z) : qc := (inject_Z k, 1).
Definition units (k : nat) : list qc := map (fun i => unit_c (Z.of_nat i)) (seq 1 k).
Definition run_greedy (delta : Q) (l : list qc) : list qc :=
  match l with [] => [] | c0 :: r => greedy QNum (k0_lim delta) 0 (total QNum l) 0 (k0_lim delta 0%N 0) c0 r end.
Definition counts (l : list qc) : list Q := map (fun c => Qred (snd c)) l.

(* delta = 4, 40 unit centroids with means 1..40: two centroids of 20; bound delta + 1 = 5 *)
Example ex_delta4 : counts (run_greedy 4 (units 40)) = [20; 20].
Proof. vm_compute. reflexivity. Qed.
(* delta = 11/10: total fusion *)
Example ex_delta11_10 : counts (run_greedy (11#10) (units 40)) = [40].
Proof. vm_compute. reflexivity. Qed.
(* delta = 20: ten centroids of 4; bound 21 *)
Example ex_delta20 : counts (run_greedy 20 (units 40)) = [4; 4; 4; 4; 4; 4; 4; 4; 4; 4].
Proof. vm_compute. reflexivity. Qed.
(* the bound delta + 1 is attained up to rounding: delta = 41/10 and an adversarial input give 5 centroids
   (5 <= 5.1), every one of them a single oversized-or-blocked input centroid *)
Definition adversarial : list qc := [(0, 1); (490, 490); (2, 1); (3 * 490, 490); (4 * 18, 18)].
Example ex_tight : counts (run_greedy (41#10) adversarial) = [1; 490; 1; 490; 18].
Proof. vm_compute. reflexivity. Qed.
(* the hypotheses of [k0_size] hold for these inputs (non-vacuity) *)
Example ex_units_pos : Forall posc (units 40).
Proof. unfold units. apply Forall_forall. intros c Hc. apply in_map_iff in Hc. destruct Hc as (i & <- & _).
  unfold posc, unit_c. simpl. lra. Qed.
Example ex_adversarial_pos : Forall posc adversarial.
Proof. unfold adversarial. repeat constructor. Qed.
(* a single oversized input centroid is emitted as is and does violate the width constraint, so the
   [In c inputs] alternative of [merge_width] cannot be dropped: 60/100 > 2/4 *)
Example ex_width_needs_alternative :
  counts (run_greedy 4 [(0, 1); (60, 60); (2, 1); (3 * 38, 38)]) = [1; 60; 39].
Proof. vm_compute. reflexivity. Qed.

(* a history: maxb = 3, delta = 4, sixty unit-weight inserts, then a read *)
Definition hist60 : list qop := map (fun i => OpInsert (inject_Z (Z.of_nat i)) 1) (seq 1 60).
Example ex_history :
  let d := td_steps (k0_lim 4) 3 hist60 in
  (length (tcent d), length (tback d), counts (tcent (td_merge QNum (k0_lim 4) d))) = (3%nat, 0%nat, [28; 30; 2]).
Proof. vm_compute. reflexivity. Qed.
Example ex_history_ok : Forall op_ok hist60.
Proof. unfold hist60. apply Forall_forall. intros o Ho. apply in_map_iff in Ho. destruct Ho as (i & <- & _). simpl. lra. Qed.

Print Assumptions greedy_pairs.
Print Assumptions greedy_length.
Print Assumptions merge_width.
Print Assumptions td_merge_size.
Print Assumptions td_steps_size.
Print Assumptions td_steps_merge_size.
Print Assumptions td_steps_ncentroids.
Print Assumptions td_steps_pos.
Print Assumptions ssort_perm.
Print Assumptions k0_lim_in.
Print Assumptions k0_size.
Print Assumptions k0_merge_size.
Print Assumptions k0_history_size.
Print Assumptions k0_history_merge_size.
Print Assumptions k0_history_ncentroids.
Print Assumptions C04_size.
Print Assumptions k0_pairs.
Print Assumptions k0_merge_width.
