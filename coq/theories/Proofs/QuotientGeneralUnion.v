(* Proofs/QuotientGeneralUnion.v — C13 / C01 for ALL widths, part 8: union and reachable states.
   qf_union_general            union = set union when it fits (<= 2^bq distinct pairs), Err(Full) otherwise
   qf_reach_inv / _exact_general  every state reachable by new / insert / union / clear holds a set exactly:
                               len, query and the result of insert are those of the set; never Stuck
   qf_insert_result_general, qf_insert_then_query_general, qf_query_mono_insert_general,
   qf_query_mono_union_general, qf_no_false_negatives_general   (C01, every width)
   qf_union_comm_general / _idem_general / _assoc_general / _reach_total_general   algebra of union *)
From PDS Require Import Model.Quotient Proofs.QuotientProofs Proofs.QuotientRename Proofs.QuotientLift.
From PDS Require Import Proofs.QuotientGeneralBase Proofs.QuotientGeneralScan Proofs.QuotientGeneralDecode
  Proofs.QuotientGeneral Proofs.QuotientGeneralCanon.
From Coq Require Import Lia ZifyN ZifyBool.
Open Scope N_scope.

Arguments N.add : simpl never.
Arguments N.mul : simpl never.
Arguments N.sub : simpl never.
Arguments N.pow : simpl never.
Arguments N.ltb : simpl never.
Arguments N.leb : simpl never.
Arguments N.eqb : simpl never.

Definition qres_dec (a b : qres) : {a = b} + {a <> b}.
Proof. decide equality. Defined.

Section Union.
Variable bq : N.
Notation n := (cn bq).
Notation fuel := (cfuel bq).

(* the set of A ++ B fits into the filter *)
Definition fits (A B : list (N * N)) : Prop := (length (nodup pair_dec (A ++ B)) <= N.to_nat n)%nat.

Lemma lrun_mono xs : forall A p, In p A -> In p (snd (lrun bq A xs)).
Proof.
  induction xs as [|x t IH]; intros A p Hp; cbn [lrun snd]; [exact Hp|].
  unfold lstep. destruct (lmem x A).
  - specialize (IH A p Hp). destruct (lrun bq A t). exact IH.
  - destruct (N.of_nat (length A) =? n).
    + specialize (IH A p Hp). destruct (lrun bq A t). exact IH.
    + specialize (IH (A ++ [x]) p ltac:(apply in_app_iff; left; exact Hp)). destruct (lrun bq (A ++ [x]) t). exact IH.
Qed.

Lemma lrun_full_iff A l : NoDup A -> (length A <= N.to_nat n)%nat ->
  (In QFull (fst (lrun bq A l)) <-> ~ fits A l).
Proof.
  intros Hnd Hlen. unfold fits. split.
  - intros Hf. destruct (lrun_full_witness_g bq l A Hnd Hf) as (W & HW & HL & Hi).
    assert (Hi' : incl W (nodup pair_dec (A ++ l))) by (intros p Hp; apply nodup_In, Hi, Hp).
    pose proof (NoDup_incl_length HW Hi'). lia.
  - intros Hnf. destruct (in_dec qres_dec QFull (fst (lrun bq A l))) as [H|H]; [exact H|exfalso]. apply Hnf.
    assert (Hacc : forall p, In p (A ++ l) -> In p (snd (lrun bq A l))).
    { intros p Hp. apply lrun_no_full_In; auto. apply in_app_iff. exact Hp. }
    assert (HndA : NoDup (snd (lrun bq A l)) /\ (length (snd (lrun bq A l)) <= N.to_nat n)%nat).
    { clear H Hacc Hnf. revert A Hnd Hlen. induction l as [|x t IH]; intros A Hnd Hlen; cbn [lrun snd]; [auto|].
      unfold lstep. destruct (lmem x A) eqn:El.
      - specialize (IH A Hnd Hlen). destruct (lrun bq A t). exact IH.
      - destruct (N.eqb_spec (N.of_nat (length A)) n).
        + specialize (IH A Hnd Hlen). destruct (lrun bq A t). exact IH.
        + assert (Hnd' : NoDup (A ++ [x])) by (apply NoDup_snoc; auto; intros Hin; apply lmem_In in Hin; congruence).
          specialize (IH (A ++ [x]) Hnd' ltac:(rewrite app_length; cbn [length]; lia)).
          destruct (lrun bq (A ++ [x]) t). exact IH. }
    destruct HndA as [H1 H2]. etransitivity; [|exact H2].
    apply NoDup_incl_length; [apply NoDup_nodup|]. intros p Hp. apply nodup_In in Hp. apply Hacc, Hp.
Qed.

Lemma insert_all_sim l : forall s A, Inv bq s A -> Forall (qok bq) l ->
  (~ In QFull (fst (lrun bq A l)) -> insert_all n fuel s l = (QOkT, snd (qf_run bq s l))) /\
  (In QFull (fst (lrun bq A l)) -> fst (insert_all n fuel s l) = QFull).
Proof.
  induction l as [|[q r] t IH]; intros s A HI Hl; cbn [insert_all lrun qf_run fst snd].
  - split; [reflexivity|intros []].
  - inversion Hl as [|? ? Hx Ht]; subst.
    destruct (step bq s A (q, r) HI Hx) as (_ & Hres & HI'). unfold ins in *. cbn [fst snd] in *.
    destruct (qf_insert_internal n fuel s q r) as [res s1]. cbn [fst snd] in *.
    unfold lstep in *. destruct (lmem (q, r) A); cbn [fst snd] in *.
    + subst res. destruct (IH s1 A HI' Ht) as [IH1 IH2].
      destruct (lrun bq A t) as [rs A2]. destruct (qf_run bq s1 t) as [rs' s2]. cbn [fst snd] in *. split.
      * intros Hnf. apply IH1. intros Hin. apply Hnf. right. exact Hin.
      * intros [E|Hin]; [discriminate|]. apply IH2. exact Hin.
    + destruct (N.of_nat (length A) =? n); cbn [fst snd] in *.
      * subst res. destruct (lrun bq A t) as [rs A2]. cbn [fst]. split; [intros Hnf; exfalso; apply Hnf; left; reflexivity|reflexivity].
      * subst res. destruct (IH s1 (A ++ [(q, r)]) HI' Ht) as [IH1 IH2].
        destruct (lrun bq (A ++ [(q, r)]) t) as [rs A2]. destruct (qf_run bq s1 t) as [rs' s2]. cbn [fst snd] in *. split.
        { intros Hnf. apply IH1. intros Hin. apply Hnf. right. exact Hin. }
        { intros [E|Hin]; [discriminate|]. apply IH2. exact Hin. }
Qed.

Lemma Inv_qok s A : Inv bq s A -> Forall (qok bq) A.
Proof. intros (_ & H & _). exact H. Qed.

(* decode of a state holding B returns the pairs of B *)
Lemma decode_general b B : Inv bq b B ->
  exists l, decode n fuel b = Some l /\ Forall (qok bq) l /\ forall x, In x l <-> In x B.
Proof.
  intros (Hnd & HqB & Hlen & Hcnt & o & c & oc & Ho & HL & HR & Hmem).
  destruct (decode_spec n (n_pos bq) fuel (fuel_ok bq) b o c oc Ho HL HR) as (l & El & Hl).
  exists l. split; [exact El|].
  assert (Hiff : forall x, In x l <-> In x B).
  { intros [q r]. rewrite Hl. split.
    - intros [Hq Hw]. apply Hmem; auto.
    - intros Hin. assert (Hq : q < n) by (rewrite Forall_forall in HqB; apply (HqB _ Hin)).
      split; [exact Hq|]. apply Hmem; auto. }
  split; [|exact Hiff]. apply Forall_forall. intros x Hx. rewrite Forall_forall in HqB. apply HqB, Hiff, Hx.
Qed.

Lemma fits_ext A l B : (forall x, In x l <-> In x B) -> (fits A l <-> fits A B).
Proof.
  intros Hiff. unfold fits.
  assert (E : length (nodup pair_dec (A ++ l)) = length (nodup pair_dec (A ++ B))); [|rewrite E; reflexivity].
  apply Nat.le_antisymm; apply NoDup_incl_length; try apply NoDup_nodup;
    intros p Hp; apply nodup_In; apply nodup_In in Hp; rewrite in_app_iff in *; rewrite Hiff in *; exact Hp.
Qed.

(* union = set union when it fits, Err(Full) (state restored) otherwise; never Stuck *)
Theorem qf_union_general a b A B : Inv bq a A -> Inv bq b B ->
  qbq a = bq -> qbq b = bq -> qbr a = qbr b ->
  (fits A B -> exists s' A', qf_union a b = Some (QOkT, s') /\ Inv bq s' A' /\
                            (forall x, In x A' <-> In x A \/ In x B)) /\
  (~ fits A B -> qf_union a b = Some (QFull, a)).
Proof.
  intros HIa HIb Ea Eb Er. unfold qf_union. rewrite Ea, Eb, Er, !N.eqb_refl. cbn [andb].
  unfold qf_n, qf_fuel, qf_n. rewrite Ea, Eb. change (2 ^ bq) with n. change (S (S (N.to_nat n))) with fuel.
  destruct (decode_general b B HIb) as (l & El & Hql & Hl). rewrite El.
  destruct (insert_all_sim l a A HIa Hql) as [S1 S2].
  pose proof HIa as (HndA & _ & HlenA & _).
  pose proof (lrun_full_iff A l HndA HlenA) as Hfull.
  pose proof (fits_ext A l B Hl) as Hfe.
  split.
  - intros Hfit. assert (Hnf : ~ In QFull (fst (lrun bq A l))) by (intros Hin; apply Hfull in Hin; apply Hin, Hfe, Hfit).
    rewrite (S1 Hnf). destruct (run_sim bq l a A HIa Hql) as [_ HI'].
    eexists. eexists. split; [reflexivity|]. split; [exact HI'|]. intros x. split.
    + intros Hin. apply lrun_incl in Hin. rewrite <- Hl. exact Hin.
    + intros Hin. apply lrun_no_full_In; auto. rewrite Hl. exact Hin.
  - intros Hnfit. assert (Hf : In QFull (fst (lrun bq A l))) by (apply Hfull; intros Hfit; apply Hnfit, Hfe, Hfit).
    specialize (S2 Hf). destruct (insert_all n fuel a l) as [res s1]. cbn [fst] in S2. subst res. reflexivity.
Qed.
End Union.

(* ========================================================================= *)
(** * reachable states, every width                                          *)
(* ========================================================================= *)
Section Reach.
Variables bq br : N.
Variable H : hashfn.
Hypothesis Hw : widths_ok bq br.
Hypothesis Hh : hash64 H.
Notation n := (cn bq).
Notation kp := (key_pair bq br H).

Lemma qf_new_empty_g : qf_new bq br = Some (qf_empty bq br).
Proof.
  destruct Hw as (Hr & Hq & Hs). unfold qf_new.
  destruct (N.ltb_spec 0 br); [|lia]. destruct (N.leb_spec br 64); [|lia].
  destruct (N.ltb_spec 0 bq); [|lia]. destruct (N.leb_spec (br + bq) 64); [|lia]. reflexivity.
Qed.

(* every reachable state holds a set of at most 2^bq pairs, canonically *)
Theorem qf_reach_inv s : qf_reach H bq br s -> exists A, Inv bq s A /\ qbq s = bq /\ qbr s = br.
Proof.
  intros Hr. induction Hr as [s1 E1|s x Hr IH|a b res a' Ha IHa Hb IHb Eu|s Hr IH].
  - rewrite qf_new_empty_g in E1. inversion E1; subst. exists []. split; [apply Inv_empty|]. split; reflexivity.
  - destruct IH as (A & HI & Eq & Er).
    rewrite (qf_insert_shape_int bq br H s x Eq Er).
    pose proof (kp_qok bq br H Hw Hh x) as Hx.
    destruct (step bq s A (kp x) HI Hx) as (_ & _ & HI').
    exists (snd (lstep bq A (kp x))). split; [exact HI'|].
    pose proof (qf_insert_internal_shape n (cfuel bq) s (fst (kp x)) (snd (kp x))) as (_&_&_&_&Hq1&Hr1).
    fold (ins bq s (kp x)) in Hq1, Hr1. split; congruence.
  - destruct IHa as (A & HIa & Eqa & Era). destruct IHb as (B & HIb & Eqb & Erb).
    pose proof (qf_union_shape a b res a' Eu) as (_&_&_&_&Hq1&Hr1).
    destruct (qf_union_general bq a b A B HIa HIb Eqa Eqb ltac:(congruence)) as [U1 U2].
    assert (Hdec : fits bq A B \/ ~ fits bq A B) by (unfold fits; lia).
    destruct Hdec as [Hf|Hf].
    + destruct (U1 Hf) as (s' & A' & E & HI' & _). rewrite E in Eu. inversion Eu; subst. exists A'.
      split; [exact HI'|]. split; congruence.
    + rewrite (U2 Hf) in Eu. inversion Eu; subst. exists A. auto.
  - exists []. rewrite (qf_clear_init H bq br _ s qf_new_empty_g Hr). split; [apply Inv_empty|]. split; reflexivity.
Qed.

(* C13 on reachable states: the abstract set determines len, query and the result of insert *)
Theorem qf_reach_exact_general s : qf_reach H bq br s ->
  exists A, Inv bq s A /\ NoDup A /\ (length A <= N.to_nat n)%nat /\
    qf_len s = N.of_nat (length A) /\
    (forall x, qf_query H s x = lmem (kp x) A) /\
    (forall x, fst (qf_insert H s x) = fst (lstep bq A (kp x))) /\
    (forall x, Inv bq (snd (qf_insert H s x)) (snd (lstep bq A (kp x)))) /\
    (forall x, fst (qf_insert H s x) <> QStuck).
Proof.
  intros Hr. destruct (qf_reach_inv s Hr) as (A & HI & Eq & Er). exists A.
  pose proof HI as (Hnd & _ & Hlen & Hcnt & _).
  split; [exact HI|]. split; [exact Hnd|]. split; [exact Hlen|]. split; [exact Hcnt|].
  assert (Hstep : forall x, qf_query H s x = lmem (kp x) A /\ fst (qf_insert H s x) = fst (lstep bq A (kp x)) /\
                            Inv bq (snd (qf_insert H s x)) (snd (lstep bq A (kp x)))).
  { intros x. rewrite (qf_query_shape_int bq br H s x Eq Er), (qf_insert_shape_int bq br H s x Eq Er).
    apply step; [exact HI|apply (kp_qok bq br H Hw Hh)]. }
  split; [intros x; apply Hstep|]. split; [intros x; apply Hstep|]. split; [intros x; apply Hstep|].
  intros x. destruct (Hstep x) as (_ & -> & _). apply lstep_not_stuck.
Qed.

(* the result of insert, spelled out *)
Theorem qf_insert_result_general s x : qf_reach H bq br s ->
  fst (qf_insert H s x) = (if qf_query H s x then QOkF else if qf_len s =? n then QFull else QOkT) /\
  qf_len s <= n.
Proof.
  intros Hr. destruct (qf_reach_exact_general s Hr) as (A & _ & _ & Hlen & Hl & Hq & Hi & _).
  rewrite Hi, Hq, Hl. unfold lstep. split; [|lia].
  destruct (lmem (kp x) A); [reflexivity|]. destruct (N.of_nat (length A) =? n); reflexivity.
Qed.

(** ** C01: no false negatives, every width *)
Lemma inv_query s A x : Inv bq s A -> qbq s = bq -> qbr s = br -> qf_query H s x = lmem (kp x) A.
Proof.
  intros HI Eq Er. rewrite (qf_query_shape_int bq br H s x Eq Er).
  apply step; [exact HI|apply (kp_qok bq br H Hw Hh)].
Qed.
Lemma lstep_mono A y p : In p A -> In p (snd (lstep bq A y)).
Proof.
  intros Hp. unfold lstep. destruct (lmem y A); [exact Hp|]. destruct (N.of_nat (length A) =? n); [exact Hp|].
  cbn [snd]. apply in_app_iff. left. exact Hp.
Qed.

Theorem qf_insert_then_query_general s x : qf_reach H bq br s ->
  fst (qf_insert H s x) = QOkT \/ fst (qf_insert H s x) = QOkF ->
  qf_query H (snd (qf_insert H s x)) x = true.
Proof.
  intros Hr Hres. destruct (qf_reach_exact_general s Hr) as (A & _ & _ & _ & _ & _ & Hi & HIs & _).
  destruct (qf_reach_inv _ (reach_insert H bq br s x Hr)) as (_ & _ & Eq & Er).
  rewrite (inv_query _ _ x (HIs x) Eq Er). apply lmem_In. rewrite Hi in Hres. unfold lstep in *.
  destruct (lmem (kp x) A) eqn:Em; cbn [fst snd] in *; [apply lmem_In; exact Em|].
  destruct (N.of_nat (length A) =? n); cbn [fst snd] in *; [destruct Hres; discriminate|].
  apply in_app_iff. right. left. reflexivity.
Qed.

Theorem qf_query_mono_insert_general s x y : qf_reach H bq br s ->
  qf_query H s x = true -> qf_query H (snd (qf_insert H s y)) x = true.
Proof.
  intros Hr. destruct (qf_reach_exact_general s Hr) as (A & _ & _ & _ & _ & Hq & _ & HIs & _).
  destruct (qf_reach_inv _ (reach_insert H bq br s y Hr)) as (_ & _ & Eq & Er).
  rewrite Hq, (inv_query _ _ x (HIs y) Eq Er). rewrite !lmem_In. apply lstep_mono.
Qed.

Theorem qf_query_mono_union_general a b res a' x : qf_reach H bq br a -> qf_reach H bq br b ->
  qf_union a b = Some (res, a') ->
  (qf_query H a x = true -> qf_query H a' x = true) /\
  (res = QOkT -> qf_query H b x = true -> qf_query H a' x = true).
Proof.
  intros Ra Rb Eu.
  destruct (qf_reach_inv a Ra) as (A & HIa & Eqa & Era). destruct (qf_reach_inv b Rb) as (B & HIb & Eqb & Erb).
  destruct (qf_reach_inv a' (reach_union H bq br a b res a' Ra Rb Eu)) as (_ & _ & Eq' & Er').
  destruct (qf_union_general bq a b A B HIa HIb Eqa Eqb ltac:(congruence)) as [U1 U2].
  assert (Hdec : fits bq A B \/ ~ fits bq A B) by (unfold fits; lia).
  destruct Hdec as [Hf|Hf].
  - destruct (U1 Hf) as (s' & A' & E & HI' & Hset). rewrite E in Eu. injection Eu as <- ->.
    rewrite (inv_query a A x HIa Eqa Era), (inv_query b B x HIb Eqb Erb), (inv_query a' A' x HI' Eq' Er').
    rewrite !lmem_In. split; [intros Hin|intros _ Hin]; apply Hset; auto.
  - rewrite (U2 Hf) in Eu. injection Eu as <- <-. split; [auto|discriminate].
Qed.

Theorem qf_no_false_negatives_general s s' x : qf_reach H bq br s -> qf_grow bq br H s s' ->
  qf_query H s x = true -> qf_query H s' x = true.
Proof.
  intros Rs Hg Hq. induction Hg as [s|s s' y Hg IH|s s' b res s'' Hg IH Rb Eu]; auto.
  - apply qf_query_mono_insert_general; [eapply qf_grow_reach; eauto|auto].
  - destruct (qf_query_mono_union_general s' b res s'' x (qf_grow_reach bq br H s s' Rs Hg) Rb Eu) as [Hm _]. auto.
Qed.

(** ** algebra of union on reachable states, every width *)
Lemma fits_set A B A' B' : (forall x, In x (A ++ B) <-> In x (A' ++ B')) -> (fits bq A B <-> fits bq A' B').
Proof.
  intros Hiff. unfold fits.
  assert (E : length (nodup pair_dec (A ++ B)) = length (nodup pair_dec (A' ++ B'))); [|rewrite E; reflexivity].
  apply Nat.le_antisymm; apply NoDup_incl_length; try apply NoDup_nodup;
    intros p Hp; apply nodup_In; apply nodup_In in Hp; apply Hiff; exact Hp.
Qed.

(* a successful union, spelled out *)
Lemma union_ok_inv a b A B s : Inv bq a A -> Inv bq b B -> qbq a = bq -> qbq b = bq -> qbr a = br -> qbr b = br ->
  qf_union a b = Some (QOkT, s) ->
  fits bq A B /\ exists A', Inv bq s A' /\ (forall x, In x A' <-> In x A \/ In x B) /\ qbq s = bq /\ qbr s = br.
Proof.
  intros HIa HIb Eqa Eqb Era Erb Eu.
  pose proof (qf_union_shape a b _ _ Eu) as (_&_&_&_&Hq1&Hr1).
  destruct (qf_union_general bq a b A B HIa HIb Eqa Eqb ltac:(congruence)) as [U1 U2].
  assert (Hdec : fits bq A B \/ ~ fits bq A B) by (unfold fits; lia).
  destruct Hdec as [Hf|Hf]; [|rewrite (U2 Hf) in Eu; discriminate].
  split; [exact Hf|]. destruct (U1 Hf) as (s' & A' & E & HI' & Hset). rewrite E in Eu. injection Eu as ->.
  exists A'. split; [exact HI'|]. split; [exact Hset|]. split; congruence.
Qed.
Lemma union_ok_intro a b A B : Inv bq a A -> Inv bq b B -> qbq a = bq -> qbq b = bq -> qbr a = br -> qbr b = br ->
  fits bq A B ->
  exists s A', qf_union a b = Some (QOkT, s) /\ Inv bq s A' /\ (forall x, In x A' <-> In x A \/ In x B) /\
               qbq s = bq /\ qbr s = br.
Proof.
  intros HIa HIb Eqa Eqb Era Erb Hf.
  destruct (qf_union_general bq a b A B HIa HIb Eqa Eqb ltac:(congruence)) as [U1 _].
  destruct (U1 Hf) as (s' & A' & E & HI' & Hset).
  pose proof (qf_union_shape a b _ _ E) as (_&_&_&_&Hq1&Hr1).
  exists s', A'. split; [exact E|]. split; [exact HI'|]. split; [exact Hset|]. split; congruence.
Qed.

Theorem qf_union_comm_general a b s : qf_reach H bq br a -> qf_reach H bq br b ->
  qf_union a b = Some (QOkT, s) -> qf_union b a = Some (QOkT, s).
Proof.
  intros Ra Rb E.
  destruct (qf_reach_inv a Ra) as (A & HIa & Eqa & Era). destruct (qf_reach_inv b Rb) as (B & HIb & Eqb & Erb).
  destruct (union_ok_inv a b A B s HIa HIb Eqa Eqb Era Erb E) as (Hf & A1 & HI1 & Hs1 & Eq1 & Er1).
  assert (Hf' : fits bq B A).
  { apply (fits_set A B B A); [|exact Hf]. intros x. rewrite !in_app_iff. tauto. }
  destruct (union_ok_intro b a B A HIb HIa Eqb Eqa Erb Era Hf') as (s2 & A2 & E2 & HI2 & Hs2 & Eq2 & Er2).
  rewrite E2. f_equal. f_equal. eapply Inv_canonical; eauto; [|congruence|congruence].
  intros x. rewrite Hs1, Hs2. tauto.
Qed.

Theorem qf_union_idem_general a : qf_reach H bq br a -> qf_union a a = Some (QOkT, a).
Proof.
  intros Ra. destruct (qf_reach_inv a Ra) as (A & HIa & Eqa & Era).
  assert (Hf : fits bq A A).
  { unfold fits. destruct HIa as (Hnd & _ & Hlen & _). etransitivity; [|exact Hlen].
    apply NoDup_incl_length; [apply NoDup_nodup|]. intros p Hp. apply nodup_In, in_app_iff in Hp. tauto. }
  destruct (union_ok_intro a a A A HIa HIa Eqa Eqa Era Era Hf) as (s2 & A2 & E2 & HI2 & Hs2 & Eq2 & Er2).
  rewrite E2. f_equal. f_equal. eapply Inv_canonical; eauto; [|congruence|congruence].
  intros x. rewrite Hs2. tauto.
Qed.

Theorem qf_union_assoc_general a b c ab bc s :
  qf_reach H bq br a -> qf_reach H bq br b -> qf_reach H bq br c ->
  qf_union a b = Some (QOkT, ab) -> qf_union b c = Some (QOkT, bc) ->
  (qf_union ab c = Some (QOkT, s) <-> qf_union a bc = Some (QOkT, s)).
Proof.
  intros Ra Rb Rc Eab Ebc.
  destruct (qf_reach_inv a Ra) as (A & HIa & Eqa & Era). destruct (qf_reach_inv b Rb) as (B & HIb & Eqb & Erb).
  destruct (qf_reach_inv c Rc) as (C & HIc & Eqc & Erc).
  destruct (union_ok_inv a b A B ab HIa HIb Eqa Eqb Era Erb Eab) as (_ & AB & HIab & Hsab & Eqab & Erab).
  destruct (union_ok_inv b c B C bc HIb HIc Eqb Eqc Erb Erc Ebc) as (_ & BC & HIbc & Hsbc & Eqbc & Erbc).
  assert (Hfs : fits bq AB C <-> fits bq A BC).
  { apply fits_set. intros x. rewrite !in_app_iff, Hsab, Hsbc. tauto. }
  split; intros E.
  - destruct (union_ok_inv ab c AB C s HIab HIc Eqab Eqc Erab Erc E) as (Hf & X & HIx & Hsx & Eqx & Erx).
    destruct (union_ok_intro a bc A BC HIa HIbc Eqa Eqbc Era Erbc (proj1 Hfs Hf)) as (s2 & X2 & E2 & HI2 & Hs2 & Eq2 & Er2).
    rewrite E2. f_equal. f_equal. eapply Inv_canonical; eauto; [|congruence|congruence].
    intros x. rewrite Hsx, Hs2, Hsab, Hsbc. tauto.
  - destruct (union_ok_inv a bc A BC s HIa HIbc Eqa Eqbc Era Erbc E) as (Hf & X & HIx & Hsx & Eqx & Erx).
    destruct (union_ok_intro ab c AB C HIab HIc Eqab Eqc Erab Erc (proj2 Hfs Hf)) as (s2 & X2 & E2 & HI2 & Hs2 & Eq2 & Er2).
    rewrite E2. f_equal. f_equal. eapply Inv_canonical; eauto; [|congruence|congruence].
    intros x. rewrite Hsx, Hs2, Hsab, Hsbc. tauto.
Qed.

(* union fails exactly when the union of the two sets does not fit; never Stuck *)
Theorem qf_union_reach_total_general a b : qf_reach H bq br a -> qf_reach H bq br b ->
  exists s, qf_union a b = Some (QOkT, s) \/ qf_union a b = Some (QFull, a).
Proof.
  intros Ra Rb.
  destruct (qf_reach_inv a Ra) as (A & HIa & Eqa & Era). destruct (qf_reach_inv b Rb) as (B & HIb & Eqb & Erb).
  destruct (qf_union_general bq a b A B HIa HIb Eqa Eqb ltac:(congruence)) as [U1 U2].
  assert (Hdec : fits bq A B \/ ~ fits bq A B) by (unfold fits; lia).
  destruct Hdec as [Hf|Hf].
  - destruct (U1 Hf) as (s' & A' & E & _). exists s'. left. exact E.
  - exists a. right. apply U2. exact Hf.
Qed.
End Reach.

(* ========================================================================= *)
(** * Non-vacuity                                                            *)
(* ========================================================================= *)
Example demo_widths : widths_ok 6 10.
Proof. unfold widths_ok. lia. Qed.
Definition demo_a : qf := snd (qf_insert idH (snd (qf_insert idH (qf_empty 6 10) 12345)) 777).
Definition demo_b : qf := snd (qf_insert idH (snd (qf_insert idH (qf_empty 6 10) 65535)) 777).
Example demo_reach_a : qf_reach idH 6 10 demo_a.
Proof. apply reach_insert, reach_insert, reach_new. reflexivity. Qed.
Example demo_reach_b : qf_reach idH 6 10 demo_b.
Proof. apply reach_insert, reach_insert, reach_new. reflexivity. Qed.
Example demo_union_comm : exists s, qf_union demo_a demo_b = Some (QOkT, s) /\ qf_union demo_b demo_a = Some (QOkT, s) /\ qf_len s = 3.
Proof. eexists. split; [vm_compute; reflexivity|]. split; vm_compute; reflexivity. Qed.
Example demo_union_idem : qf_union demo_a demo_a = Some (QOkT, demo_a).
Proof. apply (qf_union_idem_general 6 10 idH demo_widths idH_hash64), demo_reach_a. Qed.

Print Assumptions qf_union_general.
Print Assumptions qf_reach_inv.
Print Assumptions qf_reach_exact_general.
Print Assumptions qf_insert_result_general.
Print Assumptions qf_insert_then_query_general.
Print Assumptions qf_query_mono_insert_general.
Print Assumptions qf_query_mono_union_general.
Print Assumptions qf_no_false_negatives_general.
Print Assumptions qf_union_comm_general.
Print Assumptions qf_union_idem_general.
Print Assumptions qf_union_assoc_general.
Print Assumptions qf_union_reach_total_general.
