(* Proofs/QuotientClosure.v — the finite closure checks of QuotientProofs.v evaluated by [vm_compute]
   for the small widths, and the resulting unconditional theorems (property C13, C01, union algebra).
   Timings (this sandbox): see the [Time] lines; (2,3) and (3,1) take about 40 s each, the rest < 3 s. *)
From PDS Require Import Model.Quotient Proofs.QuotientProofs Proofs.QuotientRename Proofs.QuotientLift.
From Coq Require Import Lia.
Open Scope N_scope.

(* ---------------- width (bits_quotient, bits_remainder) = (1, 1) ---------------- *)
Time Lemma closure_1_1 : check_all 1 1 = true.
Proof. vm_cast_no_check (eq_refl true). Time Qed.
Lemma widths_ok_1_1 : widths_ok 1 1.
Proof. unfold widths_ok. lia. Qed.

Theorem qf_exact_1_1 : forall xs : list (N * N), Forall (inU 1 1) xs ->
  let M := snd (spec_run 1 1 (mempty 1 1) xs) in
  let s := snd (qf_run 1 (qf_empty 1 1) xs) in
  fst (qf_run 1 (qf_empty 1 1) xs) = fst (spec_run 1 1 (mempty 1 1) xs) /\
  ~ In QStuck (fst (qf_run 1 (qf_empty 1 1) xs)) /\
  s = state_of 1 1 M /\ valid 1 1 M /\
  qcnt s = N.of_nat (mcount M) /\
  (forall p, inU 1 1 p -> qry 1 s p = mmem 1 M p) /\
  (forall p, inU 1 1 p ->
     ins 1 s p = (fst (spec_step 1 1 M p), state_of 1 1 (snd (spec_step 1 1 M p)))).
Proof. exact (qf_exact_small 1 1 closure_1_1). Qed.

Theorem qf_exact_set_1_1 : forall xs : list (N * N), Forall (inU 1 1) xs ->
  (length (nodup pair_dec xs) <= N.to_nat (cn 1))%nat ->
  let rs := fst (qf_run 1 (qf_empty 1 1) xs) in
  let s := snd (qf_run 1 (qf_empty 1 1) xs) in
  (forall p, inU 1 1 p -> (qry 1 s p = true <-> In p xs)) /\
  qcnt s = N.of_nat (length (nodup pair_dec xs)) /\
  (forall r, In r rs -> r = QOkT \/ r = QOkF).
Proof. exact (qf_exact_set 1 1 closure_1_1). Qed.

Theorem qf_reach_exact_1_1 : forall (H : hashfn) (s : qf), hash64 H -> qf_reach H 1 1 s ->
  exists M : list bool,
    valid 1 1 M /\ s = state_of 1 1 M /\
    qf_len s = N.of_nat (mcount M) /\
    (forall x, qf_query H s x = mmem 1 M (key_pair 1 1 H x)) /\
    (forall x, qf_insert H s x =
               (fst (spec_step 1 1 M (key_pair 1 1 H x)),
                state_of 1 1 (snd (spec_step 1 1 M (key_pair 1 1 H x))))) /\
    (forall x, fst (qf_insert H s x) <> QStuck).
Proof. intros H s Hh. exact (qf_reach_exact 1 1 closure_1_1 H s widths_ok_1_1 Hh). Qed.

Theorem qf_union_1_1 : forall A B : list bool, valid 1 1 A -> valid 1 1 B ->
  qf_union (state_of 1 1 A) (state_of 1 1 B) =
  Some (if (mcount (mor A B) <=? N.to_nat (cn 1))%nat
        then (QOkT, state_of 1 1 (mor A B)) else (QFull, state_of 1 1 A)).
Proof. exact (qf_union_small 1 1 closure_1_1). Qed.

(* ---------------- width (bits_quotient, bits_remainder) = (1, 2) ---------------- *)
Time Lemma closure_1_2 : check_all 1 2 = true.
Proof. vm_cast_no_check (eq_refl true). Time Qed.
Lemma widths_ok_1_2 : widths_ok 1 2.
Proof. unfold widths_ok. lia. Qed.

Theorem qf_exact_1_2 : forall xs : list (N * N), Forall (inU 1 2) xs ->
  let M := snd (spec_run 1 2 (mempty 1 2) xs) in
  let s := snd (qf_run 1 (qf_empty 1 2) xs) in
  fst (qf_run 1 (qf_empty 1 2) xs) = fst (spec_run 1 2 (mempty 1 2) xs) /\
  ~ In QStuck (fst (qf_run 1 (qf_empty 1 2) xs)) /\
  s = state_of 1 2 M /\ valid 1 2 M /\
  qcnt s = N.of_nat (mcount M) /\
  (forall p, inU 1 2 p -> qry 1 s p = mmem 2 M p) /\
  (forall p, inU 1 2 p ->
     ins 1 s p = (fst (spec_step 1 2 M p), state_of 1 2 (snd (spec_step 1 2 M p)))).
Proof. exact (qf_exact_small 1 2 closure_1_2). Qed.

Theorem qf_exact_set_1_2 : forall xs : list (N * N), Forall (inU 1 2) xs ->
  (length (nodup pair_dec xs) <= N.to_nat (cn 1))%nat ->
  let rs := fst (qf_run 1 (qf_empty 1 2) xs) in
  let s := snd (qf_run 1 (qf_empty 1 2) xs) in
  (forall p, inU 1 2 p -> (qry 1 s p = true <-> In p xs)) /\
  qcnt s = N.of_nat (length (nodup pair_dec xs)) /\
  (forall r, In r rs -> r = QOkT \/ r = QOkF).
Proof. exact (qf_exact_set 1 2 closure_1_2). Qed.

Theorem qf_reach_exact_1_2 : forall (H : hashfn) (s : qf), hash64 H -> qf_reach H 1 2 s ->
  exists M : list bool,
    valid 1 2 M /\ s = state_of 1 2 M /\
    qf_len s = N.of_nat (mcount M) /\
    (forall x, qf_query H s x = mmem 2 M (key_pair 1 2 H x)) /\
    (forall x, qf_insert H s x =
               (fst (spec_step 1 2 M (key_pair 1 2 H x)),
                state_of 1 2 (snd (spec_step 1 2 M (key_pair 1 2 H x))))) /\
    (forall x, fst (qf_insert H s x) <> QStuck).
Proof. intros H s Hh. exact (qf_reach_exact 1 2 closure_1_2 H s widths_ok_1_2 Hh). Qed.

Theorem qf_union_1_2 : forall A B : list bool, valid 1 2 A -> valid 1 2 B ->
  qf_union (state_of 1 2 A) (state_of 1 2 B) =
  Some (if (mcount (mor A B) <=? N.to_nat (cn 1))%nat
        then (QOkT, state_of 1 2 (mor A B)) else (QFull, state_of 1 2 A)).
Proof. exact (qf_union_small 1 2 closure_1_2). Qed.

(* ---------------- width (bits_quotient, bits_remainder) = (1, 3) ---------------- *)
Time Lemma closure_1_3 : check_all 1 3 = true.
Proof. vm_cast_no_check (eq_refl true). Time Qed.
Lemma widths_ok_1_3 : widths_ok 1 3.
Proof. unfold widths_ok. lia. Qed.

Theorem qf_exact_1_3 : forall xs : list (N * N), Forall (inU 1 3) xs ->
  let M := snd (spec_run 1 3 (mempty 1 3) xs) in
  let s := snd (qf_run 1 (qf_empty 1 3) xs) in
  fst (qf_run 1 (qf_empty 1 3) xs) = fst (spec_run 1 3 (mempty 1 3) xs) /\
  ~ In QStuck (fst (qf_run 1 (qf_empty 1 3) xs)) /\
  s = state_of 1 3 M /\ valid 1 3 M /\
  qcnt s = N.of_nat (mcount M) /\
  (forall p, inU 1 3 p -> qry 1 s p = mmem 3 M p) /\
  (forall p, inU 1 3 p ->
     ins 1 s p = (fst (spec_step 1 3 M p), state_of 1 3 (snd (spec_step 1 3 M p)))).
Proof. exact (qf_exact_small 1 3 closure_1_3). Qed.

Theorem qf_exact_set_1_3 : forall xs : list (N * N), Forall (inU 1 3) xs ->
  (length (nodup pair_dec xs) <= N.to_nat (cn 1))%nat ->
  let rs := fst (qf_run 1 (qf_empty 1 3) xs) in
  let s := snd (qf_run 1 (qf_empty 1 3) xs) in
  (forall p, inU 1 3 p -> (qry 1 s p = true <-> In p xs)) /\
  qcnt s = N.of_nat (length (nodup pair_dec xs)) /\
  (forall r, In r rs -> r = QOkT \/ r = QOkF).
Proof. exact (qf_exact_set 1 3 closure_1_3). Qed.

Theorem qf_reach_exact_1_3 : forall (H : hashfn) (s : qf), hash64 H -> qf_reach H 1 3 s ->
  exists M : list bool,
    valid 1 3 M /\ s = state_of 1 3 M /\
    qf_len s = N.of_nat (mcount M) /\
    (forall x, qf_query H s x = mmem 3 M (key_pair 1 3 H x)) /\
    (forall x, qf_insert H s x =
               (fst (spec_step 1 3 M (key_pair 1 3 H x)),
                state_of 1 3 (snd (spec_step 1 3 M (key_pair 1 3 H x))))) /\
    (forall x, fst (qf_insert H s x) <> QStuck).
Proof. intros H s Hh. exact (qf_reach_exact 1 3 closure_1_3 H s widths_ok_1_3 Hh). Qed.

Theorem qf_union_1_3 : forall A B : list bool, valid 1 3 A -> valid 1 3 B ->
  qf_union (state_of 1 3 A) (state_of 1 3 B) =
  Some (if (mcount (mor A B) <=? N.to_nat (cn 1))%nat
        then (QOkT, state_of 1 3 (mor A B)) else (QFull, state_of 1 3 A)).
Proof. exact (qf_union_small 1 3 closure_1_3). Qed.

(* ---------------- width (bits_quotient, bits_remainder) = (1, 4) ---------------- *)
Time Lemma closure_1_4 : check_all 1 4 = true.
Proof. vm_cast_no_check (eq_refl true). Time Qed.
Lemma widths_ok_1_4 : widths_ok 1 4.
Proof. unfold widths_ok. lia. Qed.

Theorem qf_exact_1_4 : forall xs : list (N * N), Forall (inU 1 4) xs ->
  let M := snd (spec_run 1 4 (mempty 1 4) xs) in
  let s := snd (qf_run 1 (qf_empty 1 4) xs) in
  fst (qf_run 1 (qf_empty 1 4) xs) = fst (spec_run 1 4 (mempty 1 4) xs) /\
  ~ In QStuck (fst (qf_run 1 (qf_empty 1 4) xs)) /\
  s = state_of 1 4 M /\ valid 1 4 M /\
  qcnt s = N.of_nat (mcount M) /\
  (forall p, inU 1 4 p -> qry 1 s p = mmem 4 M p) /\
  (forall p, inU 1 4 p ->
     ins 1 s p = (fst (spec_step 1 4 M p), state_of 1 4 (snd (spec_step 1 4 M p)))).
Proof. exact (qf_exact_small 1 4 closure_1_4). Qed.

Theorem qf_exact_set_1_4 : forall xs : list (N * N), Forall (inU 1 4) xs ->
  (length (nodup pair_dec xs) <= N.to_nat (cn 1))%nat ->
  let rs := fst (qf_run 1 (qf_empty 1 4) xs) in
  let s := snd (qf_run 1 (qf_empty 1 4) xs) in
  (forall p, inU 1 4 p -> (qry 1 s p = true <-> In p xs)) /\
  qcnt s = N.of_nat (length (nodup pair_dec xs)) /\
  (forall r, In r rs -> r = QOkT \/ r = QOkF).
Proof. exact (qf_exact_set 1 4 closure_1_4). Qed.

Theorem qf_reach_exact_1_4 : forall (H : hashfn) (s : qf), hash64 H -> qf_reach H 1 4 s ->
  exists M : list bool,
    valid 1 4 M /\ s = state_of 1 4 M /\
    qf_len s = N.of_nat (mcount M) /\
    (forall x, qf_query H s x = mmem 4 M (key_pair 1 4 H x)) /\
    (forall x, qf_insert H s x =
               (fst (spec_step 1 4 M (key_pair 1 4 H x)),
                state_of 1 4 (snd (spec_step 1 4 M (key_pair 1 4 H x))))) /\
    (forall x, fst (qf_insert H s x) <> QStuck).
Proof. intros H s Hh. exact (qf_reach_exact 1 4 closure_1_4 H s widths_ok_1_4 Hh). Qed.

Theorem qf_union_1_4 : forall A B : list bool, valid 1 4 A -> valid 1 4 B ->
  qf_union (state_of 1 4 A) (state_of 1 4 B) =
  Some (if (mcount (mor A B) <=? N.to_nat (cn 1))%nat
        then (QOkT, state_of 1 4 (mor A B)) else (QFull, state_of 1 4 A)).
Proof. exact (qf_union_small 1 4 closure_1_4). Qed.

(* ---------------- width (bits_quotient, bits_remainder) = (2, 1) ---------------- *)
Time Lemma closure_2_1 : check_all 2 1 = true.
Proof. vm_cast_no_check (eq_refl true). Time Qed.
Lemma widths_ok_2_1 : widths_ok 2 1.
Proof. unfold widths_ok. lia. Qed.

Theorem qf_exact_2_1 : forall xs : list (N * N), Forall (inU 2 1) xs ->
  let M := snd (spec_run 2 1 (mempty 2 1) xs) in
  let s := snd (qf_run 2 (qf_empty 2 1) xs) in
  fst (qf_run 2 (qf_empty 2 1) xs) = fst (spec_run 2 1 (mempty 2 1) xs) /\
  ~ In QStuck (fst (qf_run 2 (qf_empty 2 1) xs)) /\
  s = state_of 2 1 M /\ valid 2 1 M /\
  qcnt s = N.of_nat (mcount M) /\
  (forall p, inU 2 1 p -> qry 2 s p = mmem 1 M p) /\
  (forall p, inU 2 1 p ->
     ins 2 s p = (fst (spec_step 2 1 M p), state_of 2 1 (snd (spec_step 2 1 M p)))).
Proof. exact (qf_exact_small 2 1 closure_2_1). Qed.

Theorem qf_exact_set_2_1 : forall xs : list (N * N), Forall (inU 2 1) xs ->
  (length (nodup pair_dec xs) <= N.to_nat (cn 2))%nat ->
  let rs := fst (qf_run 2 (qf_empty 2 1) xs) in
  let s := snd (qf_run 2 (qf_empty 2 1) xs) in
  (forall p, inU 2 1 p -> (qry 2 s p = true <-> In p xs)) /\
  qcnt s = N.of_nat (length (nodup pair_dec xs)) /\
  (forall r, In r rs -> r = QOkT \/ r = QOkF).
Proof. exact (qf_exact_set 2 1 closure_2_1). Qed.

Theorem qf_reach_exact_2_1 : forall (H : hashfn) (s : qf), hash64 H -> qf_reach H 2 1 s ->
  exists M : list bool,
    valid 2 1 M /\ s = state_of 2 1 M /\
    qf_len s = N.of_nat (mcount M) /\
    (forall x, qf_query H s x = mmem 1 M (key_pair 2 1 H x)) /\
    (forall x, qf_insert H s x =
               (fst (spec_step 2 1 M (key_pair 2 1 H x)),
                state_of 2 1 (snd (spec_step 2 1 M (key_pair 2 1 H x))))) /\
    (forall x, fst (qf_insert H s x) <> QStuck).
Proof. intros H s Hh. exact (qf_reach_exact 2 1 closure_2_1 H s widths_ok_2_1 Hh). Qed.

Theorem qf_union_2_1 : forall A B : list bool, valid 2 1 A -> valid 2 1 B ->
  qf_union (state_of 2 1 A) (state_of 2 1 B) =
  Some (if (mcount (mor A B) <=? N.to_nat (cn 2))%nat
        then (QOkT, state_of 2 1 (mor A B)) else (QFull, state_of 2 1 A)).
Proof. exact (qf_union_small 2 1 closure_2_1). Qed.

(* ---------------- width (bits_quotient, bits_remainder) = (2, 2) ---------------- *)
Time Lemma closure_2_2 : check_all 2 2 = true.
Proof. vm_cast_no_check (eq_refl true). Time Qed.
Lemma widths_ok_2_2 : widths_ok 2 2.
Proof. unfold widths_ok. lia. Qed.

Theorem qf_exact_2_2 : forall xs : list (N * N), Forall (inU 2 2) xs ->
  let M := snd (spec_run 2 2 (mempty 2 2) xs) in
  let s := snd (qf_run 2 (qf_empty 2 2) xs) in
  fst (qf_run 2 (qf_empty 2 2) xs) = fst (spec_run 2 2 (mempty 2 2) xs) /\
  ~ In QStuck (fst (qf_run 2 (qf_empty 2 2) xs)) /\
  s = state_of 2 2 M /\ valid 2 2 M /\
  qcnt s = N.of_nat (mcount M) /\
  (forall p, inU 2 2 p -> qry 2 s p = mmem 2 M p) /\
  (forall p, inU 2 2 p ->
     ins 2 s p = (fst (spec_step 2 2 M p), state_of 2 2 (snd (spec_step 2 2 M p)))).
Proof. exact (qf_exact_small 2 2 closure_2_2). Qed.

Theorem qf_exact_set_2_2 : forall xs : list (N * N), Forall (inU 2 2) xs ->
  (length (nodup pair_dec xs) <= N.to_nat (cn 2))%nat ->
  let rs := fst (qf_run 2 (qf_empty 2 2) xs) in
  let s := snd (qf_run 2 (qf_empty 2 2) xs) in
  (forall p, inU 2 2 p -> (qry 2 s p = true <-> In p xs)) /\
  qcnt s = N.of_nat (length (nodup pair_dec xs)) /\
  (forall r, In r rs -> r = QOkT \/ r = QOkF).
Proof. exact (qf_exact_set 2 2 closure_2_2). Qed.

Theorem qf_reach_exact_2_2 : forall (H : hashfn) (s : qf), hash64 H -> qf_reach H 2 2 s ->
  exists M : list bool,
    valid 2 2 M /\ s = state_of 2 2 M /\
    qf_len s = N.of_nat (mcount M) /\
    (forall x, qf_query H s x = mmem 2 M (key_pair 2 2 H x)) /\
    (forall x, qf_insert H s x =
               (fst (spec_step 2 2 M (key_pair 2 2 H x)),
                state_of 2 2 (snd (spec_step 2 2 M (key_pair 2 2 H x))))) /\
    (forall x, fst (qf_insert H s x) <> QStuck).
Proof. intros H s Hh. exact (qf_reach_exact 2 2 closure_2_2 H s widths_ok_2_2 Hh). Qed.

Theorem qf_union_2_2 : forall A B : list bool, valid 2 2 A -> valid 2 2 B ->
  qf_union (state_of 2 2 A) (state_of 2 2 B) =
  Some (if (mcount (mor A B) <=? N.to_nat (cn 2))%nat
        then (QOkT, state_of 2 2 (mor A B)) else (QFull, state_of 2 2 A)).
Proof. exact (qf_union_small 2 2 closure_2_2). Qed.

(* ---------------- width (bits_quotient, bits_remainder) = (2, 3) ---------------- *)
Time Lemma closure_2_3 : check_all 2 3 = true.
Proof. vm_cast_no_check (eq_refl true). Time Qed.
Lemma widths_ok_2_3 : widths_ok 2 3.
Proof. unfold widths_ok. lia. Qed.

Theorem qf_exact_2_3 : forall xs : list (N * N), Forall (inU 2 3) xs ->
  let M := snd (spec_run 2 3 (mempty 2 3) xs) in
  let s := snd (qf_run 2 (qf_empty 2 3) xs) in
  fst (qf_run 2 (qf_empty 2 3) xs) = fst (spec_run 2 3 (mempty 2 3) xs) /\
  ~ In QStuck (fst (qf_run 2 (qf_empty 2 3) xs)) /\
  s = state_of 2 3 M /\ valid 2 3 M /\
  qcnt s = N.of_nat (mcount M) /\
  (forall p, inU 2 3 p -> qry 2 s p = mmem 3 M p) /\
  (forall p, inU 2 3 p ->
     ins 2 s p = (fst (spec_step 2 3 M p), state_of 2 3 (snd (spec_step 2 3 M p)))).
Proof. exact (qf_exact_small 2 3 closure_2_3). Qed.

Theorem qf_exact_set_2_3 : forall xs : list (N * N), Forall (inU 2 3) xs ->
  (length (nodup pair_dec xs) <= N.to_nat (cn 2))%nat ->
  let rs := fst (qf_run 2 (qf_empty 2 3) xs) in
  let s := snd (qf_run 2 (qf_empty 2 3) xs) in
  (forall p, inU 2 3 p -> (qry 2 s p = true <-> In p xs)) /\
  qcnt s = N.of_nat (length (nodup pair_dec xs)) /\
  (forall r, In r rs -> r = QOkT \/ r = QOkF).
Proof. exact (qf_exact_set 2 3 closure_2_3). Qed.

Theorem qf_reach_exact_2_3 : forall (H : hashfn) (s : qf), hash64 H -> qf_reach H 2 3 s ->
  exists M : list bool,
    valid 2 3 M /\ s = state_of 2 3 M /\
    qf_len s = N.of_nat (mcount M) /\
    (forall x, qf_query H s x = mmem 3 M (key_pair 2 3 H x)) /\
    (forall x, qf_insert H s x =
               (fst (spec_step 2 3 M (key_pair 2 3 H x)),
                state_of 2 3 (snd (spec_step 2 3 M (key_pair 2 3 H x))))) /\
    (forall x, fst (qf_insert H s x) <> QStuck).
Proof. intros H s Hh. exact (qf_reach_exact 2 3 closure_2_3 H s widths_ok_2_3 Hh). Qed.

Theorem qf_union_2_3 : forall A B : list bool, valid 2 3 A -> valid 2 3 B ->
  qf_union (state_of 2 3 A) (state_of 2 3 B) =
  Some (if (mcount (mor A B) <=? N.to_nat (cn 2))%nat
        then (QOkT, state_of 2 3 (mor A B)) else (QFull, state_of 2 3 A)).
Proof. exact (qf_union_small 2 3 closure_2_3). Qed.

(* ---------------- width (bits_quotient, bits_remainder) = (3, 1) ---------------- *)
Time Lemma closure_3_1 : check_all 3 1 = true.
Proof. vm_cast_no_check (eq_refl true). Time Qed.
Lemma widths_ok_3_1 : widths_ok 3 1.
Proof. unfold widths_ok. lia. Qed.

Theorem qf_exact_3_1 : forall xs : list (N * N), Forall (inU 3 1) xs ->
  let M := snd (spec_run 3 1 (mempty 3 1) xs) in
  let s := snd (qf_run 3 (qf_empty 3 1) xs) in
  fst (qf_run 3 (qf_empty 3 1) xs) = fst (spec_run 3 1 (mempty 3 1) xs) /\
  ~ In QStuck (fst (qf_run 3 (qf_empty 3 1) xs)) /\
  s = state_of 3 1 M /\ valid 3 1 M /\
  qcnt s = N.of_nat (mcount M) /\
  (forall p, inU 3 1 p -> qry 3 s p = mmem 1 M p) /\
  (forall p, inU 3 1 p ->
     ins 3 s p = (fst (spec_step 3 1 M p), state_of 3 1 (snd (spec_step 3 1 M p)))).
Proof. exact (qf_exact_small 3 1 closure_3_1). Qed.

Theorem qf_exact_set_3_1 : forall xs : list (N * N), Forall (inU 3 1) xs ->
  (length (nodup pair_dec xs) <= N.to_nat (cn 3))%nat ->
  let rs := fst (qf_run 3 (qf_empty 3 1) xs) in
  let s := snd (qf_run 3 (qf_empty 3 1) xs) in
  (forall p, inU 3 1 p -> (qry 3 s p = true <-> In p xs)) /\
  qcnt s = N.of_nat (length (nodup pair_dec xs)) /\
  (forall r, In r rs -> r = QOkT \/ r = QOkF).
Proof. exact (qf_exact_set 3 1 closure_3_1). Qed.

Theorem qf_reach_exact_3_1 : forall (H : hashfn) (s : qf), hash64 H -> qf_reach H 3 1 s ->
  exists M : list bool,
    valid 3 1 M /\ s = state_of 3 1 M /\
    qf_len s = N.of_nat (mcount M) /\
    (forall x, qf_query H s x = mmem 1 M (key_pair 3 1 H x)) /\
    (forall x, qf_insert H s x =
               (fst (spec_step 3 1 M (key_pair 3 1 H x)),
                state_of 3 1 (snd (spec_step 3 1 M (key_pair 3 1 H x))))) /\
    (forall x, fst (qf_insert H s x) <> QStuck).
Proof. intros H s Hh. exact (qf_reach_exact 3 1 closure_3_1 H s widths_ok_3_1 Hh). Qed.

Theorem qf_union_3_1 : forall A B : list bool, valid 3 1 A -> valid 3 1 B ->
  qf_union (state_of 3 1 A) (state_of 3 1 B) =
  Some (if (mcount (mor A B) <=? N.to_nat (cn 3))%nat
        then (QOkT, state_of 3 1 (mor A B)) else (QFull, state_of 3 1 A)).
Proof. exact (qf_union_small 3 1 closure_3_1). Qed.

(* ---------------- all verified widths at once ---------------- *)
Definition small_widths : list (N * N) := [(1, 1); (1, 2); (1, 3); (1, 4); (2, 1); (2, 2); (2, 3); (3, 1)].

Theorem closure_small_widths bq br : In (bq, br) small_widths -> check_all bq br = true.
Proof.
  unfold small_widths. cbn [In]. intros Hin.
  repeat (destruct Hin as [E|Hin]; [inversion E; subst|]); try contradiction.
  - exact closure_1_1.
  - exact closure_1_2.
  - exact closure_1_3.
  - exact closure_1_4.
  - exact closure_2_1.
  - exact closure_2_2.
  - exact closure_2_3.
  - exact closure_3_1.
Qed.
Lemma widths_ok_small bq br : In (bq, br) small_widths -> widths_ok bq br.
Proof.
  unfold small_widths. cbn [In]. intros Hin.
  repeat (destruct Hin as [E|Hin]; [inversion E; subst; unfold widths_ok; lia|]). contradiction.
Qed.

Section Small.
Variables bq br : N.
Hypothesis Hsmall : In (bq, br) small_widths.
Variable H : hashfn.
Hypothesis Hh : hash64 H.
Let Hck := closure_small_widths bq br Hsmall.
Let Hw := widths_ok_small bq br Hsmall.

(* C13, public operations, any program (inserts, unions, clears) *)
Theorem qf_c13_small s : qf_reach H bq br s ->
  exists M : list bool,
    valid bq br M /\ s = state_of bq br M /\
    qf_len s = N.of_nat (mcount M) /\
    (forall x, qf_query H s x = mmem br M (key_pair bq br H x)) /\
    (forall x, qf_insert H s x =
               (fst (spec_step bq br M (key_pair bq br H x)),
                state_of bq br (snd (spec_step bq br M (key_pair bq br H x))))) /\
    (forall x, fst (qf_insert H s x) <> QStuck).
Proof. exact (qf_reach_exact bq br Hck H s Hw Hh). Qed.

(* C13, insertion histories of keys *)
Theorem qf_c13_keys_small (ks : list N) :
  let ps := map (key_pair bq br H) ks in
  qf_run_keys H (qf_empty bq br) ks =
  (fst (spec_run bq br (mempty bq br) ps), state_of bq br (snd (spec_run bq br (mempty bq br) ps))).
Proof. exact (qf_exact_keys bq br Hck H ks Hw Hh). Qed.

Theorem qf_c13_keys_set_small (ks : list N) :
  let ps := map (key_pair bq br H) ks in
  (length (nodup pair_dec ps) <= N.to_nat (cn bq))%nat ->
  let s := snd (qf_run_keys H (qf_empty bq br) ks) in
  (forall x, qf_query H s x = true <-> In (key_pair bq br H x) ps) /\
  qf_len s = N.of_nat (length (nodup pair_dec ps)) /\
  (forall r, In r (fst (qf_run_keys H (qf_empty bq br) ks)) -> r = QOkT \/ r = QOkF).
Proof. exact (qf_exact_keys_set bq br Hck H ks Hw Hh). Qed.

(* union algebra on reachable states *)
Theorem qf_union_comm_small a b s : qf_reach H bq br a -> qf_reach H bq br b ->
  qf_union a b = Some (QOkT, s) -> qf_union b a = Some (QOkT, s).
Proof. exact (qf_union_comm bq br Hck H Hw Hh a b s). Qed.
Theorem qf_union_idem_small a : qf_reach H bq br a -> qf_union a a = Some (QOkT, a).
Proof. exact (qf_union_idem bq br Hck H Hw Hh a). Qed.
Theorem qf_union_assoc_small a b c ab bc s :
  qf_reach H bq br a -> qf_reach H bq br b -> qf_reach H bq br c ->
  qf_union a b = Some (QOkT, ab) -> qf_union b c = Some (QOkT, bc) ->
  (qf_union ab c = Some (QOkT, s) <-> qf_union a bc = Some (QOkT, s)).
Proof. exact (qf_union_assoc bq br Hck H Hw Hh a b c ab bc s). Qed.
Theorem qf_union_total_small a b : qf_reach H bq br a -> qf_reach H bq br b ->
  exists s, qf_union a b = Some (QOkT, s) \/ qf_union a b = Some (QFull, a).
Proof. exact (qf_union_reach_total bq br Hck H Hw Hh a b). Qed.

(* the result of insert, spelled out *)
Theorem qf_insert_result_small s x : qf_reach H bq br s ->
  fst (qf_insert H s x) = (if qf_query H s x then QOkF else if qf_len s =? cn bq then QFull else QOkT) /\
  qf_len s <= cn bq.
Proof. exact (qf_insert_result bq br Hck H Hw Hh s x). Qed.
(* the layout is canonical: the final state depends only on the set of pairs inserted *)
Theorem qf_history_independent_small (xs ys : list (N * N)) :
  Forall (inU bq br) xs -> Forall (inU bq br) ys ->
  (forall p, In p xs <-> In p ys) -> (length (nodup pair_dec xs) <= N.to_nat (cn bq))%nat ->
  snd (qf_run bq (qf_empty bq br) xs) = snd (qf_run bq (qf_empty bq br) ys).
Proof. exact (qf_history_independent bq br Hck xs ys). Qed.

(* C01: no false negatives *)
Theorem qf_insert_then_query_small s x : qf_reach H bq br s ->
  fst (qf_insert H s x) = QOkT \/ fst (qf_insert H s x) = QOkF ->
  qf_query H (snd (qf_insert H s x)) x = true.
Proof. exact (qf_insert_then_query bq br Hck H Hw Hh s x). Qed.
Theorem qf_query_mono_union_small a b res a' x : qf_reach H bq br a -> qf_reach H bq br b ->
  qf_union a b = Some (res, a') ->
  (qf_query H a x = true -> qf_query H a' x = true) /\
  (res = QOkT -> qf_query H b x = true -> qf_query H a' x = true).
Proof. exact (qf_query_mono_union bq br Hck H Hw Hh a b res a' x). Qed.
Theorem qf_no_false_negatives_small s s' x : qf_reach H bq br s -> qf_grow bq br H s s' ->
  qf_query H s x = true -> qf_query H s' x = true.
Proof. exact (qf_no_false_negatives bq br Hck H Hw Hh s s' x). Qed.
End Small.

(* ---------------- bits_quotient in {1, 2}, EVERY bits_remainder (rank renaming, QuotientLift.v) -------- *)
Lemma small_bq_closure bq : bq = 1 \/ bq = 2 -> exists br0, check_all bq br0 = true /\ cn bq + 2 <= cR br0.
Proof.
  intros [->| ->].
  - exists 2. split; [exact closure_1_2|]. vm_compute. discriminate.
  - exists 3. split; [exact closure_2_3|]. vm_compute. discriminate.
Qed.

Theorem qf_c13_allbr bq br (xs : list (N * N)) : bq = 1 \/ bq = 2 -> Forall (qok bq) xs ->
  let A := snd (lrun bq [] xs) in
  let s := snd (qf_run bq (qf_empty bq br) xs) in
  fst (qf_run bq (qf_empty bq br) xs) = fst (lrun bq [] xs) /\
  ~ In QStuck (fst (qf_run bq (qf_empty bq br) xs)) /\
  s = snd (qf_run bq (qf_empty bq br) A) /\
  NoDup A /\ (length A <= N.to_nat (cn bq))%nat /\
  qcnt s = N.of_nat (length A) /\
  (forall p, qok bq p -> qry bq s p = lmem p A) /\
  (forall p, qok bq p ->
     fst (ins bq s p) = fst (lstep bq A p) /\
     snd (ins bq s p) = snd (qf_run bq (qf_empty bq br) (snd (lstep bq A p)))).
Proof. intros Hb. destruct (small_bq_closure bq Hb) as (br0 & Hck & Hcap). exact (qf_exact_allbr bq br0 Hck Hcap br xs). Qed.

Theorem qf_c13_set_allbr bq br (xs : list (N * N)) : bq = 1 \/ bq = 2 -> Forall (qok bq) xs ->
  (length (nodup pair_dec xs) <= N.to_nat (cn bq))%nat ->
  let s := snd (qf_run bq (qf_empty bq br) xs) in
  (forall p, qok bq p -> (qry bq s p = true <-> In p xs)) /\
  qcnt s = N.of_nat (length (nodup pair_dec xs)) /\
  (forall r, In r (fst (qf_run bq (qf_empty bq br) xs)) -> r = QOkT \/ r = QOkF).
Proof. intros Hb. destruct (small_bq_closure bq Hb) as (br0 & Hck & Hcap). exact (qf_exact_set_allbr bq br0 Hck Hcap br xs). Qed.

(* public operations: any width (bq, br) accepted by [qf_new] with bq <= 2, any hash function, any key history *)
Theorem qf_c13_keys_allbr bq br (H : hashfn) (ks : list N) : bq = 1 \/ bq = 2 -> widths_ok bq br -> hash64 H ->
  let ps := map (key_pair bq br H) ks in
  let A := snd (lrun bq [] ps) in
  let s := snd (qf_run_keys H (qf_empty bq br) ks) in
  fst (qf_run_keys H (qf_empty bq br) ks) = fst (lrun bq [] ps) /\
  ~ In QStuck (fst (qf_run_keys H (qf_empty bq br) ks)) /\
  NoDup A /\ (length A <= N.to_nat (cn bq))%nat /\
  qf_len s = N.of_nat (length A) /\
  (forall x, qf_query H s x = lmem (key_pair bq br H x) A) /\
  (forall x, fst (qf_insert H s x) = fst (lstep bq A (key_pair bq br H x))).
Proof.
  intros Hb Hw Hh. destruct (small_bq_closure bq Hb) as (br0 & Hck & Hcap).
  exact (qf_exact_keys_allbr bq br0 Hck Hcap br H Hw Hh ks).
Qed.

Theorem qf_c13_keys_set_allbr bq br (H : hashfn) (ks : list N) : bq = 1 \/ bq = 2 -> widths_ok bq br -> hash64 H ->
  let ps := map (key_pair bq br H) ks in
  (length (nodup pair_dec ps) <= N.to_nat (cn bq))%nat ->
  let s := snd (qf_run_keys H (qf_empty bq br) ks) in
  (forall x, qf_query H s x = true <-> In (key_pair bq br H x) ps) /\
  qf_len s = N.of_nat (length (nodup pair_dec ps)) /\
  (forall r, In r (fst (qf_run_keys H (qf_empty bq br) ks)) -> r = QOkT \/ r = QOkF).
Proof.
  intros Hb Hw Hh. destruct (small_bq_closure bq Hb) as (br0 & Hck & Hcap).
  exact (qf_exact_keys_set_allbr bq br0 Hck Hcap br H Hw Hh ks).
Qed.

(* non-vacuity: a 64-bit-fingerprint filter, bits_quotient = 2, bits_remainder = 62 *)
Example allbr_demo :
  widths_ok 2 62 /\
  fst (qf_run_keys idH (qf_empty 2 62) [5; 18446744073709551615; 5; 4611686018427387904; 7; 9; 7]) =
  [QOkT; QOkT; QOkF; QOkT; QOkT; QFull; QOkF].
Proof. split; [unfold widths_ok; lia|vm_compute; reflexivity]. Qed.

(* ---------------- non-vacuity ---------------- *)
(* a history for width (2,2) that exercises Ok(true), Ok(false), Err(Full) and a shifted cluster *)
Definition demo_hist : list (N * N) := [(0, 1); (0, 1); (3, 2); (0, 0); (3, 1); (2, 3); (0, 1); (3, 2)].
Example demo_hist_inU : Forall (inU 2 2) demo_hist.
Proof. repeat constructor. Qed.
Example demo_hist_results :
  fst (qf_run 2 (qf_empty 2 2) demo_hist) = [QOkT; QOkF; QOkT; QOkT; QOkT; QFull; QOkF; QOkF].
Proof. vm_compute. reflexivity. Qed.
Example demo_reach : qf_reach idH 2 2 (snd (qf_insert idH (snd (qf_insert idH (qf_empty 2 2) 13)) 7)).
Proof. apply reach_insert, reach_insert, reach_new. reflexivity. Qed.
Example demo_small : In (2, 2) small_widths.
Proof. cbn. tauto. Qed.

Print Assumptions closure_1_1.
Print Assumptions qf_exact_1_1.
Print Assumptions qf_exact_set_1_1.
Print Assumptions qf_reach_exact_1_1.
Print Assumptions qf_union_1_1.
Print Assumptions closure_1_2.
Print Assumptions qf_exact_1_2.
Print Assumptions qf_exact_set_1_2.
Print Assumptions qf_reach_exact_1_2.
Print Assumptions qf_union_1_2.
Print Assumptions closure_1_3.
Print Assumptions qf_exact_1_3.
Print Assumptions qf_exact_set_1_3.
Print Assumptions qf_reach_exact_1_3.
Print Assumptions qf_union_1_3.
Print Assumptions closure_1_4.
Print Assumptions qf_exact_1_4.
Print Assumptions qf_exact_set_1_4.
Print Assumptions qf_reach_exact_1_4.
Print Assumptions qf_union_1_4.
Print Assumptions closure_2_1.
Print Assumptions qf_exact_2_1.
Print Assumptions qf_exact_set_2_1.
Print Assumptions qf_reach_exact_2_1.
Print Assumptions qf_union_2_1.
Print Assumptions closure_2_2.
Print Assumptions qf_exact_2_2.
Print Assumptions qf_exact_set_2_2.
Print Assumptions qf_reach_exact_2_2.
Print Assumptions qf_union_2_2.
Print Assumptions closure_2_3.
Print Assumptions qf_exact_2_3.
Print Assumptions qf_exact_set_2_3.
Print Assumptions qf_reach_exact_2_3.
Print Assumptions qf_union_2_3.
Print Assumptions closure_3_1.
Print Assumptions qf_exact_3_1.
Print Assumptions qf_exact_set_3_1.
Print Assumptions qf_reach_exact_3_1.
Print Assumptions qf_union_3_1.
Print Assumptions closure_small_widths.
Print Assumptions qf_c13_small.
Print Assumptions qf_c13_keys_small.
Print Assumptions qf_c13_keys_set_small.
Print Assumptions qf_union_comm_small.
Print Assumptions qf_union_idem_small.
Print Assumptions qf_union_assoc_small.
Print Assumptions qf_union_total_small.
Print Assumptions qf_insert_then_query_small.
Print Assumptions qf_query_mono_union_small.
Print Assumptions qf_no_false_negatives_small.
Print Assumptions qf_insert_result_small.
Print Assumptions qf_history_independent_small.
Print Assumptions qf_c13_allbr.
Print Assumptions qf_c13_set_allbr.
Print Assumptions qf_c13_keys_allbr.
Print Assumptions qf_c13_keys_set_allbr.
