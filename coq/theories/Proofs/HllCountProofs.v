(* Proofs/HllCountProofs.v — HyperLogLog::count() (Model/HllCount.v) returns normally for every register
   content: no table index escapes, the neighbour search never reaches its panic! branch.
   Valid for ANY arithmetic instance; the only proviso is the one Rust itself makes with
   [partial_cmp(..).unwrap()]: the raw estimate must be comparable with the table entries (not NaN).

   count_fun_of_registers: [h_count A ofN ln trunc b regs] is a Gallina function of [b] and [regs] only
   (and of the arithmetic parameters) - the hasher, PhantomData and the history of insertions cannot
   influence it; this is a typing fact and needs no theorem.  It is NOT invariant under permutation of
   the registers in floating point (the sum is accumulated left to right), so no such theorem is stated. *)
From PDS Require Import Model.HllCount Model.TDigestQ Proofs.HllTables.
From Coq Require Import QArith Qabs Lia Lqa.
From Coq Require Import ZifyNat ZifyN ZifyBool.
Ltac Zify.zify_post_hook ::= Z.div_mod_to_equations.

Local Open Scope N_scope.

Lemma Forall_repeat {X} (P : X -> Prop) x n : P x -> Forall P (repeat x n).
Proof. intros H. induction n; simpl; constructor; auto. Qed.

Section Count.
Variable A : arith.
Notation T := (aT A). Notation zero := (azero A). Notation one := (aone A). Notation half := (ahalf A).
Notation add := (aadd A). Notation sub := (asub A). Notation mul := (amul A). Notation div := (adiv A).
Notation leb := (aleb A). Notation ltb := (altb A).
Variable ofN : N -> T.
Variable ln : T -> T.
Variable trunc : T -> N.

Notation of_dlit := (of_dlit A ofN).
Notation pcmp := (pcmp A).
Notation h_e := (h_e A ofN).
Notation h_count := (h_count A ofN ln trunc).
Notation estimate_bias := (estimate_bias A ofN).

(* [a.partial_cmp(&e)] is not None *)
Definition comparable (a e : T) : Prop := leb a e = true \/ leb e a = true.

Lemma pcmp_Some a e : comparable a e -> exists c, pcmp a e = Some c.
Proof.
  unfold comparable, HllCount.pcmp. intros [H|H]; rewrite H.
  - destruct (leb e a); eauto.
  - destruct (leb a e); eauto.
Qed.

(* ---------------- POW2MINX and the register sum ---------------- *)
Lemma pow_tab_length l p : length (pow_tab A l p) = length l.
Proof. revert p; induction l as [|x l IH]; intros p; simpl; auto. Qed.

Lemma POW2MINX_length : length (POW2MINX A) = 256%nat.
Proof. unfold POW2MINX. rewrite pow_tab_length. apply pow2minx_table. Qed.

Lemma sum_regs_total tab regs acc :
  Forall (fun r => (N.to_nat r < length tab)%nat) regs -> exists s, sum_regs A tab regs acc = Some s.
Proof.
  intros H. revert acc. induction H as [|x regs Hx _ IH]; intros acc; simpl.
  - eauto.
  - destruct (nth_error tab (N.to_nat x)) as [p|] eqn:E; [|apply nth_error_None in E; lia].
    cbn [obind]. apply IH.
Qed.

Lemma h_e_total regs : Forall (fun r => r < 256) regs -> exists e, h_e regs = Some e.
Proof.
  intros H. unfold HllCount.h_e.
  destruct (sum_regs_total (POW2MINX A) regs zero) as [s Hs].
  { rewrite POW2MINX_length. eapply Forall_impl; [|exact H]. cbv beta. intros r Hr. lia. }
  rewrite Hs. cbn [obind]. eauto.
Qed.

(* ---------------- binary search ---------------- *)
Definition all_comparable (arr : list T) (e : T) : Prop := forall a, In a arr -> comparable a e.

Lemma bs_loop_total fuel arr e size base :
  all_comparable arr e -> (1 <= size)%nat -> (base + size <= length arr)%nat -> (size <= fuel + 1)%nat ->
  exists r, bs_loop A fuel arr e size base = Some r /\ (r < length arr)%nat.
Proof.
  intros Hc. revert size base. induction fuel as [|f IH]; intros size base H1 H2 H3.
  - simpl. destruct (Nat.leb_spec size 1) as [L|L]; [|lia]. exists base. split; [reflexivity|lia].
  - cbn [bs_loop]. destruct (Nat.leb_spec size 1) as [L|L].
    + exists base. split; [reflexivity|lia].
    + assert (Hh : (1 <= size / 2 /\ size / 2 < size)%nat) by lia.
      destruct (nth_error arr (base + size / 2)) as [a|] eqn:E; [|apply nth_error_None in E; lia].
      cbn [obind].
      destruct (pcmp_Some a e) as [c Ec]. { apply Hc. eapply nth_error_In; eauto. }
      rewrite Ec. cbn [obind].
      destruct c; apply IH; lia.
Qed.

Definition bs_inv (len : nat) (r : bsres) : Prop :=
  match r with BsOk i => (i < len)%nat | BsErr i => (i <= len)%nat end.

Lemma binary_search_total arr e :
  all_comparable arr e -> exists r, binary_search A arr e = Some r /\ bs_inv (length arr) r.
Proof.
  intros Hc. unfold binary_search.
  destruct (Nat.eqb_spec (length arr) 0) as [Z|NZ].
  - exists (BsErr 0). split; [reflexivity|simpl; lia].
  - destruct (bs_loop_total (length arr) arr e (length arr) 0 Hc) as (base & Eb & Hb); try lia.
    rewrite Eb. cbn [obind].
    destruct (nth_error arr base) as [a|] eqn:E; [|apply nth_error_None in E; lia].
    cbn [obind].
    destruct (pcmp_Some a e) as [c Ec]. { apply Hc. eapply nth_error_In; eauto. }
    rewrite Ec. cbn [obind].
    eexists. split; [reflexivity|]. destruct c; simpl; lia.
Qed.

(* ---------------- the neighbour window ---------------- *)
Definition ok_idx (len : nat) (o : option nat) : Prop := match o with Some i => (i < len)%nat | None => True end.
(* number of candidates still available on the left / right *)
Definition avL (il : option nat) : nat := match il with Some l => S l | None => 0 end.
Definition avR (len : nat) (ir : option nat) : nat := match ir with Some r => (len - r)%nat | None => 0%nat end.
Definition nb_inv (len k : nat) (il ir : option nat) : Prop :=
  ok_idx len il /\ ok_idx len ir /\ (k <= avL il + avR len ir)%nat.

Lemma startpoints_total arr e k :
  all_comparable arr e -> (1 <= length arr)%nat -> (k <= length arr)%nat ->
  exists il ir, startpoints A arr e = Some (il, ir) /\ nb_inv (length arr) k il ir.
Proof.
  intros Hc H1 Hk. unfold startpoints.
  destruct (binary_search_total arr e Hc) as (r & Er & Hr). rewrite Er. cbn [obind].
  destruct r as [i|i]; simpl in Hr.
  - do 2 eexists. split; [reflexivity|]. unfold nb_inv; simpl. lia.
  - destruct (Nat.eqb_spec i 0) as [Z|NZ].
    + do 2 eexists. split; [reflexivity|]. unfold nb_inv; simpl. lia.
    + destruct (Nat.eqb_spec i (length arr)) as [EL|NL].
      * do 2 eexists. split; [reflexivity|]. unfold nb_inv; simpl. lia.
      * do 2 eexists. split; [reflexivity|]. unfold nb_inv; simpl. lia.
Qed.

Lemma nb_step_total arr e k il ir :
  nb_inv (length arr) (S k) il ir ->
  exists idx il' ir', nb_step A arr e il ir = Some (idx, il', ir') /\
                      (idx < length arr)%nat /\ nb_inv (length arr) k il' ir'.
Proof.
  unfold nb_inv, nb_step. intros (HL & HR & Hk).
  destruct il as [l|], ir as [r|]; simpl in HL, HR, Hk.
  - destruct (nth_error arr l) as [al|] eqn:El; [|apply nth_error_None in El; lia].
    destruct (nth_error arr r) as [ar|] eqn:Er; [|apply nth_error_None in Er; lia].
    cbn [obind].
    destruct (ltb (fabs A (sub ar e)) (fabs A (sub al e))); cbn [obind].
    + destruct (Nat.ltb_spec r (length arr - 1)); do 3 eexists; (split; [reflexivity|]); simpl; lia.
    + destruct (Nat.ltb_spec 0 l); do 3 eexists; (split; [reflexivity|]); simpl; lia.
  - cbn [obind]. destruct (Nat.ltb_spec 0 l); do 3 eexists; (split; [reflexivity|]); simpl; lia.
  - cbn [obind].
    destruct (Nat.ltb_spec r (length arr - 1)); do 3 eexists; (split; [reflexivity|]); simpl; lia.
  - lia.
Qed.

Lemma nb_loop_total arr e k il ir :
  nb_inv (length arr) k il ir ->
  exists nbs, nb_loop A k arr e il ir = Some nbs /\ length nbs = k /\
              Forall (fun i => (i < length arr)%nat) nbs.
Proof.
  revert il ir. induction k as [|k IH]; intros il ir H.
  - exists []. simpl. auto.
  - cbn [nb_loop].
    destruct (nb_step_total arr e k il ir H) as (idx & il' & ir' & Es & Hi & H').
    rewrite Es. cbn [obind].
    destruct (IH il' ir' H') as (rest & Er & Hl & Hf). rewrite Er. cbn [obind].
    exists (idx :: rest). split; [reflexivity|]. split; [simpl; lia|]. constructor; auto.
Qed.

Lemma sum_bias_total bias nbs acc :
  Forall (fun i => (i < length bias)%nat) nbs -> exists s, sum_bias A bias nbs acc = Some s.
Proof.
  intros H. revert acc. induction H as [|i nbs Hi _ IH]; intros acc; simpl.
  - eauto.
  - destruct (nth_error bias i) as [x|] eqn:E; [|apply nth_error_None in E; lia].
    cbn [obind]. apply IH.
Qed.

(* ---------------- estimate_bias ---------------- *)
(* the comparability proviso, on the row consulted for precision b *)
Definition row_comparable (b : N) (e : T) : Prop :=
  forall row x, row_of raw_estimate_data raw_estimate_data_offset b = Some row -> In x row ->
                comparable (of_dlit x) e.

Theorem estimate_bias_total b e :
  4 <= b <= 18 -> row_comparable b e -> exists bias, estimate_bias b e = Some bias.
Proof.
  intros Hb Hc.
  destruct (table_rows b Hb) as (row & brow & thr & Er & Eb & _ & Hlen & H6 & _).
  unfold HllCount.estimate_bias. rewrite Er. cbn [obind].
  set (arr := map of_dlit row).
  assert (Hla : length arr = length row) by (unfold arr; apply map_length).
  assert (Hca : all_comparable arr e).
  { intros a Ha. unfold arr in Ha. apply in_map_iff in Ha. destruct Ha as (x & <- & Hx). eapply Hc; eauto. }
  assert (Hk : N.to_nat bias_k = 6%nat).
  { destruct table_shape as (_ & _ & _ & _ & _ & _ & _ & _ & K). rewrite K. reflexivity. }
  destruct (startpoints_total arr e 6 Hca) as (il & ir & Es & Hinv); try lia.
  rewrite Es. cbn [obind]. rewrite Hk.
  destruct (Nat.ltb_spec (length arr) 6) as [L|_]; [lia|].
  destruct (nb_loop_total arr e 6 il ir Hinv) as (nbs & En & _ & Hf).
  rewrite En. cbn [obind]. rewrite Eb. cbn [obind].
  destruct (sum_bias_total (map of_dlit brow) nbs zero) as [s Hs].
  { rewrite map_length, <- Hlen, <- Hla. exact Hf. }
  rewrite Hs. cbn [obind]. eauto.
Qed.

(* ---------------- count ---------------- *)
(* The comparability proviso for count(): whenever the raw estimate e is produced, it is comparable with
   every entry of the raw-estimate row (for binary64: e is not NaN, which holds because the register sum
   lies in [2^(b-255), 2^b]). *)
Definition cmp_defined (b : N) (regs : list N) : Prop :=
  forall e, h_e regs = Some e -> row_comparable b e.

Theorem count_total_gen b regs :
  4 <= b <= 18 -> Forall (fun r => r < 256) regs -> cmp_defined b regs ->
  exists c, h_count b regs = Some c.
Proof.
  intros Hb Hr Hc. unfold HllCount.h_count.
  destruct (h_e_total regs Hr) as [e He]. rewrite He. cbn [obind].
  destruct (table_rows b Hb) as (row & brow & thr & _ & _ & Et & _).
  unfold h_threshold.
  destruct (leb e (mul (of_dlit small_range_factor) (ofN (lenN regs)))).
  - destruct (estimate_bias_total b e Hb (Hc e He)) as [bias Ebias]. rewrite Ebias. cbn [obind].
    rewrite Et. cbn [obind]. destruct (leb _ (ofN thr)); eauto.
  - cbn [obind]. rewrite Et. cbn [obind]. destruct (leb _ (ofN thr)); eauto.
Qed.

(* total order on the carrier (Q; binary64 without NaN) *)
Definition leb_total : Prop := forall x y : T, leb x y = true \/ leb y x = true.

Theorem count_total b regs :
  leb_total ->
  4 <= b <= 18 -> lenN regs = 2 ^ b -> Forall (fun r => r < 256) regs ->
  exists c, h_count b regs = Some c.
Proof.
  intros Ht Hb _ Hr. apply count_total_gen; auto.
  intros e _ row x _ _. apply Ht.
Qed.

(* conversely: the ONLY way count() can fail on well-formed registers is the unwrap of partial_cmp *)
Corollary count_None_only_unwrap b regs :
  4 <= b <= 18 -> Forall (fun r => r < 256) regs -> h_count b regs = None -> ~ cmp_defined b regs.
Proof.
  intros Hb Hr HN Hc. destruct (count_total_gen b regs Hb Hr Hc) as [c Ec]. congruence.
Qed.

(* ---------------- the empty sketch ---------------- *)
Lemma count_zeros_repeat_aux n c : fold_left (fun c x => if x =? 0 then c + 1 else c) (repeat 0 n) c = c + N.of_nat n.
Proof. revert c; induction n as [|n IH]; intros c; simpl; [lia|]. rewrite IH. lia. Qed.

Lemma count_zeros_repeat n : count_zeros (repeat 0 n) = N.of_nat n.
Proof. unfold count_zeros. rewrite count_zeros_repeat_aux. lia. Qed.

(* general form: only what is needed of the arithmetic on the value h = m * ln (m / m) *)
Theorem count_empty_gen b :
  leb_total -> 4 <= b <= 18 ->
  let m := ofN (2 ^ b) in
  let h := mul m (ln (div m m)) in
  (forall thr, In thr threshold_data -> leb h (ofN thr) = true) -> trunc h = 0 ->
  h_count b (repeat 0 (N.to_nat (2 ^ b))) = Some 0.
Proof.
  intros Ht Hb m h Hle Htr. set (regs := repeat 0 (N.to_nat (2 ^ b))).
  assert (Hlen : lenN regs = 2 ^ b). { unfold lenN, regs. rewrite repeat_length. lia. }
  assert (Hr : Forall (fun r => r < 256) regs). { apply Forall_repeat. lia. }
  assert (Hv : count_zeros regs = 2 ^ b). { unfold regs. rewrite count_zeros_repeat. lia. }
  unfold HllCount.h_count.
  destruct (h_e_total regs Hr) as [e He]. rewrite He. cbn [obind].
  destruct (table_rows b Hb) as (row & brow & thr & _ & _ & Et & _).
  assert (Hin : In thr threshold_data).
  { unfold row_of in Et. destruct (b <? threshold_data_offset); [discriminate|].
    unfold getN in Et. eapply nth_error_In; eauto. }
  rewrite Hv, Hlen. fold m.
  assert (Hnz : (2 ^ b =? 0) = false). { apply N.eqb_neq. apply N.pow_nonzero. lia. }
  rewrite Hnz. unfold linear_counting. fold h.
  assert (Hfin : forall es : T, obind (h_threshold b)
              (fun thr0 => if leb h (ofN thr0) then Some (trunc h) else Some (trunc es)) = Some 0).
  { intros es. unfold h_threshold. rewrite Et. cbn [obind]. rewrite (Hle thr Hin). rewrite Htr. reflexivity. }
  destruct (leb e (mul (of_dlit small_range_factor) m)).
  - destruct (estimate_bias_total b e Hb) as [bias Ebias].
    { intros row' x _ _. apply Ht. }
    rewrite Ebias. cbn [obind]. apply Hfin.
  - cbn [obind]. apply Hfin.
Qed.

(* the form with Leibniz equalities, directly valid for binary64 (m / m = 1.0, ln 1.0 = 0.0, m * 0.0 = 0.0) *)
Theorem count_empty b :
  leb_total -> 4 <= b <= 18 ->
  let m := ofN (2 ^ b) in
  div m m = one -> ln one = zero -> mul m zero = zero ->
  (forall n, leb zero (ofN n) = true) -> trunc zero = 0 ->
  h_count b (repeat 0 (N.to_nat (2 ^ b))) = Some 0.
Proof.
  intros Ht Hb m Hd Hl Hm Hle Htr. apply count_empty_gen; auto; fold m; rewrite Hd, Hl, Hm; auto.
Qed.

End Count.

(* ------------------------------------------------------------------ *)
(* the exact-rational instance                                         *)
(* ------------------------------------------------------------------ *)
Definition QofN (n : N) : Q := inject_Z (Z.of_N n).
(* f64 as usize on an exact value: toward zero, negative -> 0, saturating at usize::MAX *)
Definition Qtrunc (q : Q) : N := N.min (2 ^ 64 - 1) (Z.to_N (Z.quot (Qnum q) (Zpos (Qden q)))).

Lemma QNum_leb_total : leb_total QNum.
Proof.
  intros x y. simpl. destruct (Qlt_le_dec y x) as [L|L].
  - right. apply Qle_bool_iff. apply Qlt_le_weak. exact L.
  - left. apply Qle_bool_iff. exact L.
Qed.

Theorem count_total_Q (lnq : Q -> Q) b regs :
  4 <= b <= 18 -> lenN regs = 2 ^ b -> Forall (fun r => r < 256) regs ->
  exists c, h_count QNum QofN lnq Qtrunc b regs = Some c.
Proof. apply count_total. apply QNum_leb_total. Qed.

Lemma Qtrunc_zero q : (q == 0)%Q -> Qtrunc q = 0.
Proof.
  unfold Qeq, Qtrunc. simpl. intros H. assert (Z : Qnum q = 0%Z) by lia. rewrite Z.
  rewrite Z.quot_0_l by discriminate. reflexivity.
Qed.

Theorem count_empty_Q (lnq : Q -> Q) b :
  (forall x, (x == 1)%Q -> (lnq x == 0)%Q) ->
  4 <= b <= 18 ->
  h_count QNum QofN lnq Qtrunc b (repeat 0 (N.to_nat (2 ^ b))) = Some 0.
Proof.
  intros Hln Hb.
  assert (Hm : ~ (QofN (2 ^ b) == 0)%Q).
  { unfold QofN, Qeq. simpl. assert (2 ^ b <> 0) by (apply N.pow_nonzero; lia). lia. }
  assert (Hh : (QofN (2 ^ b) * lnq (QofN (2 ^ b) / QofN (2 ^ b)) == 0)%Q).
  { rewrite (Hln (QofN (2 ^ b) / QofN (2 ^ b))%Q).
    - ring.
    - field. exact Hm. }
  apply count_empty_gen.
  - apply QNum_leb_total.
  - exact Hb.
  - intros thr _. simpl. apply Qle_bool_iff. rewrite Hh. unfold QofN, Qle. simpl. lia.
  - simpl. apply Qtrunc_zero. exact Hh.
Qed.

(* ------------------------------------------------------------------ *)
(* examples (exact arithmetic; ln is only consulted when some register is zero) *)
(* ------------------------------------------------------------------ *)
(* a crude rational stand-in for ln with ln 1 = 0, good enough to run the model *)
Definition ln_stub (x : Q) : Q := (x - 1)%Q.

(* b = 4, all 16 registers = 1 : sum = 8, z = 1/8, e = 0.673*16*16/8 = 21.536 <= 80, bias from the table *)
Example count_ex1 : h_count QNum QofN ln_stub Qtrunc 4 (repeat 1 16) = Some 17.
Proof. vm_compute. reflexivity. Qed.

Example count_ex_empty : h_count QNum QofN ln_stub Qtrunc 4 (repeat 0 16) = Some 0.
Proof. apply count_empty_Q; [|lia]. intros x Hx. unfold ln_stub. rewrite Hx. reflexivity. Qed.

(* wrong register width is reported as a panic (None), never a wrong index *)
Example count_ex_bad : h_count QNum QofN ln_stub Qtrunc 4 (256 :: repeat 1 15) = None.
Proof. vm_compute. reflexivity. Qed.

Example count_total_nonvacuous : exists c, h_count QNum QofN ln_stub Qtrunc 5 (repeat 3 32) = Some c.
Proof. apply count_total_Q; [lia|reflexivity|apply Forall_repeat; lia]. Qed.

Print Assumptions estimate_bias_total.
Print Assumptions count_total_gen.
Print Assumptions count_total.
Print Assumptions count_None_only_unwrap.
Print Assumptions count_empty_gen.
Print Assumptions count_empty.
Print Assumptions count_total_Q.
Print Assumptions count_empty_Q.
