(* Proofs/QuotientGeneralScan.v — C13 for ALL widths, part 2: [scan] on a state that represents a line.
   For every offset [uq < n] (quotient [sl n o uq]) and every remainder [r]:
   scan terminates with fuel [> n], reports "present" iff the line holds [(uq, r)], and (on insert, or
   when the quotient is occupied) returns the first position [p], at or after the start [c0] of the
   cluster covering [uq], whose cell is empty or not lexicographically below [(uq, r)]. *)
From PDS Require Import Model.Quotient Proofs.QuotientProofs Proofs.QuotientGeneralBase.
From Coq Require Import Lia ZifyN ZifyBool.
Open Scope N_scope.

Arguments N.add : simpl never.
Arguments N.mul : simpl never.
Arguments N.sub : simpl never.
Arguments N.ltb : simpl never.
Arguments N.leb : simpl never.
Arguments N.eqb : simpl never.

(* [c0] is the start of the cluster that covers offset [u] (or [c0 = u] is an empty / canonical slot) *)
Definition CStart (c : cellT) (c0 u : N) : Prop :=
  c0 <= u /\ shfb c c0 = false /\ forall w, c0 < w <= u -> shfb c w = true.
(* [p] is the first position from [c0] on whose cell is empty or not below [key] *)
Definition Fpos (c : cellT) (c0 : N) (key : N * N) (p : N) : Prop :=
  c0 <= p /\ (forall w, c0 <= w < p -> exists a, c w = Some a /\ lexlt a key) /\
  (forall a, c p = Some a -> ~ lexlt a key).

Section Scan.
Variable n : N.
Hypothesis n_pos : 0 < n.
Variable fuel0 : nat.
Hypothesis Hfuel : (N.to_nat n < fuel0)%nat.
Variables (s : qf) (o : N) (c : cellT) (oc : N -> bool).
Hypothesis o_lt : o < n.
Hypothesis HL : Line n c oc.
Hypothesis HR : Rep n s o c oc.

Local Lemma Rocc u : u < n -> getb (qocc s) (sl n o u) = oc u.
Proof. eapply rep_occ; eauto. Qed.
Local Lemma Rrem u : u < n -> getn (qrem s) (sl n o u) = remf c u.
Proof. eapply rep_rem; eauto. Qed.
Local Lemma Rcont u : u <= n -> getb (qcont s) (sl n o u) = contb c u.
Proof. eapply rep_cont; eauto. Qed.
Local Lemma Rshf u : u <= n -> getb (qshf s) (sl n o u) = shfb c u.
Proof. eapply rep_shf; eauto. Qed.

(** ** clusters and first positions *)
Lemma cstart_used c0 u : CStart c c0 u -> c0 < u -> forall w, c0 <= w <= u -> exists a, c w = Some a.
Proof.
  intros (H1 & H2 & H3) Hlt w Hw. destruct (N.eq_dec w c0) as [E|E].
  - subst w. destruct (shfb_true c (c0 + 1)) as (v & r & Hc & Hv); [apply H3; lia|].
    destruct (L_prev _ _ _ HL _ _ _ Hc Hv) as (v' & r' & Hp & _).
    replace (c0 + 1 - 1) with c0 in Hp by lia. eauto.
  - destruct (shfb_true c w) as (v & r & Hc & _); [apply H3; lia|]. eauto.
Qed.
Lemma cstart_mono c0 u u' : CStart c c0 u -> c0 <= u' <= u -> CStart c c0 u'.
Proof. intros (H1 & H2 & H3) Hu. split; [lia|]. split; [exact H2|]. intros w Hw. apply H3. lia. Qed.

Lemma fpos_le_n c0 key p : Fpos c c0 key p -> c0 <= n -> p <= n.
Proof.
  intros (H1 & H2 & _) Hc. destruct (N.le_gt_cases p n) as [H|H]; [exact H|].
  destruct (H2 n) as (a & Ha & _); [lia|]. rewrite (line_out n c oc HL n) in Ha by lia. discriminate.
Qed.

Lemma fpos_ge c0 uq r p : CStart c c0 uq -> Fpos c c0 (uq, r) p -> uq <= p.
Proof.
  intros HC (H1 & H2 & H3). destruct (N.eq_dec c0 uq) as [E|E]; [lia|].
  destruct HC as (HC1 & HC2 & HC3). assert (Hlt : c0 < uq) by lia.
  destruct (N.le_gt_cases uq p) as [Hp|Hp]; [exact Hp|exfalso].
  destruct (shfb_true c uq) as (v & r' & Hc & Hv); [apply HC3; lia|].
  destruct (cstart_used c0 uq (conj HC1 (conj HC2 HC3)) Hlt p) as (a & Ha); [lia|].
  apply (H3 a Ha).
  assert (Hl : lexlt a (v, r')) by (eapply (line_sorted n c oc HL uq p); eauto).
  apply lexlt_fst in Hl. cbn [fst] in Hl. left. cbn [fst]. lia.
Qed.

Lemma fpos_mem c0 uq r p : CStart c c0 uq -> Fpos c c0 (uq, r) p ->
  ((exists u, c u = Some (uq, r)) <-> c p = Some (uq, r)).
Proof.
  intros HC HF. split; [|eauto]. intros (u & Hu).
  pose proof (fpos_ge c0 uq r p HC HF) as Hge. destruct HF as (H1 & H2 & H3).
  pose proof (L_le _ _ _ HL _ _ _ Hu) as Hle.
  destruct (N.lt_total u p) as [H|[H|H]].
  - exfalso. destruct (H2 u) as (a & Ha & Hl); [destruct HC; lia|]. rewrite Hu in Ha. inversion Ha; subst.
    exact (lexlt_irrefl _ Hl).
  - subst. exact Hu.
  - exfalso. destruct (no_gap n c oc HL u uq r p Hu) as (v' & r' & Hp & _); [lia|].
    apply (H3 _ Hp). eapply (line_sorted n c oc HL u p); eauto.
Qed.

(* the first position for key (b, 0) is the start of the run of an occupied quotient b *)
Lemma run_start c0 b sp : CStart c c0 b -> oc b = true -> Fpos c c0 (b, 0) sp ->
  exists r0, c sp = Some (b, r0).
Proof.
  intros HC Ho HF. pose proof (fpos_ge c0 b 0 sp HC HF) as Hge. destruct HF as (H1 & H2 & H3).
  apply (L_occ _ _ _ HL) in Ho as (u & r & Hu). pose proof (L_le _ _ _ HL _ _ _ Hu) as Hle.
  assert (Hsu : sp <= u).
  { destruct (N.le_gt_cases sp u) as [H|H]; [exact H|exfalso].
    destruct (H2 u) as (a & Ha & Hl); [destruct HC; lia|]. rewrite Hu in Ha. inversion Ha; subst.
    destruct Hl as [Hl|[_ Hl]]; cbn [fst snd] in Hl; lia. }
  destruct (no_gap n c oc HL u b r sp Hu) as (v' & r' & Hp & Hv); [lia|].
  assert (Hnl : ~ lexlt (v', r') (b, 0)) by (apply H3; exact Hp).
  assert (v' = b) by (unfold lexlt in Hnl; cbn [fst snd] in Hnl; lia). subst v'. eauto.
Qed.

Lemma fpos_key_unocc c0 uq r r' p : oc uq = false -> Fpos c c0 (uq, r) p -> Fpos c c0 (uq, r') p.
Proof.
  intros Ho (H1 & H2 & H3).
  assert (Hne : forall u a, c u = Some a -> fst a <> uq).
  { intros u [v x] Ha E. cbn [fst] in E. subst v.
    assert (oc uq = true) by (apply (L_occ _ _ _ HL); eauto). congruence. }
  split; [exact H1|]. split.
  - intros w Hw. destruct (H2 w Hw) as (a & Ha & Hl). exists a. split; [exact Ha|].
    pose proof (Hne w a Ha). unfold lexlt in *. cbn [fst snd] in *. lia.
  - intros a Ha Hl. apply (H3 a Ha). pose proof (Hne p a Ha). unfold lexlt in *. cbn [fst snd] in *. lia.
Qed.

(** ** the loops *)
Lemma walk_back_spec : forall u, u < n -> forall fuel, (N.to_nat u < fuel)%nat ->
  exists b, walk_back n s (sl n o u) fuel = Some (sl n o b) /\ CStart c b u.
Proof.
  induction u as [|u IH] using N.peano_ind; intros Hu fuel Hf; (destruct fuel as [|f]; [lia|]); cbn [walk_back].
  - rewrite Rshf by lia. rewrite (shfb_0 n c oc HL). exists 0. split; [reflexivity|].
    split; [lia|]. split; [apply (shfb_0 n c oc HL)|]. intros w Hw. lia.
  - rewrite Rshf by lia. destruct (shfb c (N.succ u)) eqn:E.
    + rewrite <- N.add_1_r, sl_decr by lia. destruct (IH ltac:(lia) f ltac:(lia)) as (b & Hb & H1 & H2 & H3).
      exists b. split; [exact Hb|]. split; [lia|]. split; [exact H2|]. intros w Hw.
      destruct (N.eq_dec w (u + 1)) as [->|Hne]; [rewrite N.add_1_r; exact E|apply H3; lia].
    + exists (N.succ u). split; [reflexivity|]. split; [lia|]. split; [exact E|]. intros w Hw. lia.
Qed.

Lemma skip_run_spec : forall fuel sp, sp < n -> (N.to_nat (n - sp) <= fuel)%nat ->
  exists sp2, skip_run n s (sl n o sp) fuel = Some (sl n o sp2) /\ sp < sp2 <= n /\
    (forall w, sp <= w < sp2 -> quo c w = quo c sp) /\ contb c sp2 = false.
Proof.
  induction fuel as [|f IH]; intros sp Hsp Hf; [lia|]. cbn [skip_run]. cbv zeta.
  rewrite sl_incr by auto. rewrite Rcont by lia. destruct (contb c (sp + 1)) eqn:E.
  - assert (Hlt : sp + 1 < n).
    { destruct (N.lt_ge_cases (sp + 1) n) as [H|H]; [exact H|].
      rewrite (contb_out n c oc HL) in E by lia. discriminate. }
    destruct (IH (sp + 1) Hlt ltac:(lia)) as (sp2 & H1 & H2 & H3 & H4).
    exists sp2. split; [exact H1|]. split; [lia|]. split; [|exact H4].
    assert (Hq : quo c (sp + 1) = quo c sp).
    { apply contb_true in E as (_ & v & r & r' & E1 & E2). replace (sp + 1 - 1) with sp in E2 by lia.
      unfold quo. rewrite E1, E2. reflexivity. }
    intros w Hw. destruct (N.eq_dec w sp) as [->|Hne]; [reflexivity|]. rewrite H3 by lia. exact Hq.
  - exists (sp + 1). split; [reflexivity|]. split; [lia|]. split; [|exact E].
    intros w Hw. replace w with sp by lia. reflexivity.
Qed.

Section Quot.
Variable uq : N.
Hypothesis uq_lt : uq < n.
Variable oi : bool.
Hypothesis Hq : oi = true \/ oc uq = true.

Lemma next_occ_spec : forall fuel b, b < uq -> (N.to_nat (uq - b) <= fuel)%nat ->
  exists b2, next_occ n s (sl n o b) (sl n o uq) oi fuel = Some (sl n o b2) /\ b < b2 <= uq /\
    (forall w, b < w < b2 -> oc w = false) /\ (b2 < uq -> oc b2 = true).
Proof.
  induction fuel as [|f IH]; intros b Hb Hf; [lia|]. cbn [next_occ]. cbv zeta.
  rewrite sl_incr by lia. rewrite Rocc by lia. rewrite sl_eqb by (auto; lia).
  destruct (oc (b + 1)) eqn:Eo; cbn [orb].
  - exists (b + 1). split; [reflexivity|]. split; [lia|]. split; [intros w Hw; lia|auto].
  - destruct (N.eqb_spec (b + 1) uq) as [E|E]; cbn [andb].
    + destruct oi.
      * exists (b + 1). split; [reflexivity|]. split; [lia|]. split; [intros w Hw; lia|intros; lia].
      * exfalso. destruct Hq as [Hq'|Hq']; [discriminate|]. rewrite <- E in Hq'. congruence.
    + destruct (IH (b + 1) ltac:(lia) ltac:(lia)) as (b2 & H1 & H2 & H3 & H4).
      exists b2. split; [exact H1|]. split; [lia|]. split; [|exact H4].
      intros w Hw. destruct (N.eq_dec w (b + 1)) as [->|Hne]; [exact Eo|apply H3; lia].
Qed.

Variable c0 : N.
Hypothesis HC : CStart c c0 uq.

Lemma walk_fwd_spec : forall fuel b sp, c0 <= b <= uq -> Fpos c c0 (b, 0) sp -> (b < uq -> oc b = true) ->
  (N.to_nat (uq - b) < fuel)%nat ->
  exists sp', walk_fwd n fuel0 s (sl n o b) (sl n o sp) (sl n o uq) oi fuel = Some (sl n o sp') /\
    Fpos c c0 (uq, 0) sp'.
Proof.
  induction fuel as [|f IH]; intros b sp Hb HF Ho Hf; [lia|]. cbn [walk_fwd].
  rewrite sl_eqb by (auto; lia). destruct (N.eqb_spec b uq) as [E|E].
  - subst b. exists sp. split; [reflexivity|exact HF].
  - assert (Hlt : b < uq) by lia. specialize (Ho Hlt).
    destruct (run_start c0 b sp (cstart_mono c0 uq b HC ltac:(lia)) Ho HF) as (r0 & Hsp).
    pose proof (L_dom _ _ _ HL _ _ _ Hsp) as Hspn.
    destruct (skip_run_spec fuel0 sp Hspn ltac:(lia)) as (sp2 & E1 & Hsp2 & Hquo & Hcont). rewrite E1.
    destruct (next_occ_spec fuel0 b Hlt ltac:(lia)) as (b2 & E2 & Hb2 & Hnocc & Hocc2). rewrite E2.
    apply IH; [lia| |exact Hocc2|lia].
    destruct HF as (F1 & F2 & F3). split; [lia|]. split.
    + intros w Hw. destruct (N.lt_ge_cases w sp) as [Hws|Hws].
      * destruct (F2 w ltac:(lia)) as (a & Ha & Hl). exists a. split; [exact Ha|].
        unfold lexlt in *. cbn [fst snd] in *. lia.
      * specialize (Hquo w ltac:(lia)). unfold quo in Hquo. rewrite Hsp in Hquo.
        destruct (c w) as [[v x]|] eqn:Ew; [|discriminate]. inversion Hquo; subst v.
        exists (b, x). split; [reflexivity|]. left. cbn [fst]. lia.
    + intros [v x] Ha Hl.
      assert (Hq1 : quo c (sp2 - 1) = Some b).
      { rewrite Hquo by lia. unfold quo. rewrite Hsp. reflexivity. }
      unfold quo in Hq1. destruct (c (sp2 - 1)) as [[v' x']|] eqn:Ep; [|discriminate]. inversion Hq1; subst v'.
      pose proof (contb_false n c oc HL sp2 v x b x' ltac:(lia) Ha Ep Hcont) as Hbv.
      assert (Hov : oc v = true) by (apply (L_occ _ _ _ HL); eauto).
      assert (Hvb2 : v < b2) by (unfold lexlt in Hl; cbn [fst snd] in Hl; lia).
      rewrite Hnocc in Hov by lia. discriminate.
Qed.
End Quot.

Lemma in_run_spec uq r c0 : forall fuel p rp, c p = Some (uq, rp) -> c0 <= p ->
  (forall w, c0 <= w < p -> exists a, c w = Some a /\ lexlt a (uq, r)) ->
  (N.to_nat (n - p) <= fuel)%nat ->
  exists pr p', in_run n s (sl n o p) r fuel = Some (pr, sl n o p') /\ Fpos c c0 (uq, r) p' /\
    (pr = true <-> c p' = Some (uq, r)) /\ p <= p'.
Proof.
  induction fuel as [|f IH]; intros p rp Hp Hcp Hpre Hf.
  - pose proof (L_dom _ _ _ HL _ _ _ Hp). lia.
  - pose proof (L_dom _ _ _ HL _ _ _ Hp) as Hpn. cbn [in_run]. cbv zeta.
    rewrite Rrem by auto. unfold remf at 1 2. rewrite Hp.
    destruct (N.eqb_spec rp r) as [E|E].
    { subst rp. exists true, p. split; [reflexivity|]. split; [|split; [tauto|lia]].
      split; [exact Hcp|]. split; [exact Hpre|]. intros a Ha. rewrite Hp in Ha. inversion Ha; subst.
      apply lexlt_irrefl. }
    destruct (N.ltb_spec r rp) as [Hlt|Hge].
    { exists false, p. split; [reflexivity|]. split; [|split; [|lia]].
      - split; [exact Hcp|]. split; [exact Hpre|]. intros a Ha. rewrite Hp in Ha. inversion Ha; subst.
        unfold lexlt; cbn [fst snd]. lia.
      - split; [discriminate|]. rewrite Hp. intros Ha. inversion Ha. contradiction. }
    assert (Hpre' : forall w, c0 <= w < p + 1 -> exists a, c w = Some a /\ lexlt a (uq, r)).
    { intros w Hw. destruct (N.eq_dec w p) as [->|Hne]; [|apply Hpre; lia].
      exists (uq, rp). split; [exact Hp|]. right. cbn [fst snd]. lia. }
    rewrite sl_incr by auto. rewrite Rcont by lia. destruct (contb c (p + 1)) eqn:Ec.
    + pose proof Ec as Ec'. apply contb_true in Ec' as (_ & v & x & x' & E1 & E2).
      replace (p + 1 - 1) with p in E2 by lia. rewrite Hp in E2. inversion E2; subst v x'.
      pose proof (L_dom _ _ _ HL _ _ _ E1) as Hp1.
      destruct (IH (p + 1) x E1 ltac:(lia) Hpre' ltac:(lia)) as (pr & p' & H1 & H2 & H3 & H4).
      exists pr, p'. split; [exact H1|]. split; [exact H2|]. split; [exact H3|lia].
    + exists false, (p + 1). split; [reflexivity|].
      assert (Hnot : forall v x, c (p + 1) = Some (v, x) -> uq < v).
      { intros v x Ha. apply (contb_false n c oc HL (p + 1) v x uq rp); auto; [lia|].
        replace (p + 1 - 1) with p by lia. exact Hp. }
      split; [|split; [|lia]].
      * split; [lia|]. split; [exact Hpre'|]. intros [v x] Ha Hl. apply Hnot in Ha.
        unfold lexlt in Hl; cbn [fst snd] in Hl. lia.
      * split; [discriminate|]. intros Ha. apply Hnot in Ha. lia.
Qed.

(** ** scan *)
Theorem scan_spec uq r oi : uq < n ->
  exists pr posr sor, scan n fuel0 s (sl n o uq) r oi = Some (pr, posr, sor) /\
    (pr = true <-> exists u, c u = Some (uq, r)) /\
    (oi = true -> exists c0 p, CStart c c0 uq /\ Fpos c c0 (uq, r) p /\ posr = sl n o p /\
       (if oc uq then exists sp r0, sor = Some (sl n o sp) /\ Fpos c c0 (uq, 0) sp /\ c sp = Some (uq, r0) /\ sp <= p
        else sor = None)).
Proof.
  intros Hu. unfold scan. rewrite Rocc by auto.
  destruct (oc uq) eqn:Eo; cbn [negb andb].
  - destruct (walk_back_spec uq Hu fuel0 ltac:(lia)) as (c0 & E1 & HC). rewrite E1.
    assert (HF0 : Fpos c c0 (c0, 0) c0).
    { split; [lia|]. split; [intros w Hw; lia|]. intros [v x] Ha Hl.
      destruct HC as (_ & HC2 & _). pose proof (shfb_false n c oc HL c0 v x Ha HC2).
      unfold lexlt in Hl; cbn [fst snd] in Hl. lia. }
    assert (Hoc0 : c0 < uq -> oc c0 = true).
    { intros Hlt. destruct (cstart_used c0 uq HC Hlt c0) as ([v x] & Ha); [lia|].
      destruct HC as (_ & HC2 & _). pose proof (shfb_false n c oc HL c0 v x Ha HC2). subst v.
      apply (L_occ _ _ _ HL). eauto. }
    destruct (walk_fwd_spec uq Hu oi (or_intror Eo) c0 HC fuel0 c0 c0 ltac:(destruct HC; lia) HF0 Hoc0 ltac:(lia))
      as (sp & E2 & HF). rewrite E2.
    destruct (run_start c0 uq sp HC Eo HF) as (r0 & Hsp).
    destruct HF as (F1 & F2 & F3).
    destruct (in_run_spec uq r c0 fuel0 sp r0 Hsp F1) as (pr & p & E3 & HFp & Hpr & Hle).
    { intros w Hw. destruct (F2 w Hw) as (a & Ha & Hl). exists a. split; [exact Ha|].
      unfold lexlt in *. cbn [fst snd] in *. lia. }
    { lia. }
    rewrite E3. exists pr, (sl n o p), (Some (sl n o sp)). split; [reflexivity|]. split.
    + rewrite Hpr. symmetry. apply (fpos_mem c0); auto.
    + intros _. exists c0, p. split; [exact HC|]. split; [exact HFp|]. split; [reflexivity|].
      exists sp, r0. split; [reflexivity|]. split; [repeat split; auto|]. split; [exact Hsp|exact Hle].
  - destruct oi; cbn [negb].
    + destruct (walk_back_spec uq Hu fuel0 ltac:(lia)) as (c0 & E1 & HC). rewrite E1.
      assert (HF0 : Fpos c c0 (c0, 0) c0).
      { split; [lia|]. split; [intros w Hw; lia|]. intros [v x] Ha Hl.
        destruct HC as (_ & HC2 & _). pose proof (shfb_false n c oc HL c0 v x Ha HC2).
        unfold lexlt in Hl; cbn [fst snd] in Hl. lia. }
      assert (Hoc0 : c0 < uq -> oc c0 = true).
      { intros Hlt. destruct (cstart_used c0 uq HC Hlt c0) as ([v x] & Ha); [lia|].
        destruct HC as (_ & HC2 & _). pose proof (shfb_false n c oc HL c0 v x Ha HC2). subst v.
        apply (L_occ _ _ _ HL). eauto. }
      destruct (walk_fwd_spec uq Hu true (or_introl eq_refl) c0 HC fuel0 c0 c0 ltac:(destruct HC; lia) HF0 Hoc0 ltac:(lia))
        as (sp & E2 & HF). rewrite E2.
      exists false, (sl n o sp), None. split; [reflexivity|].
      assert (Hno : ~ exists u, c u = Some (uq, r)).
      { intros (u & Ha). assert (oc uq = true) by (apply (L_occ _ _ _ HL); eauto). congruence. }
      split; [split; [discriminate|intros H; exfalso; exact (Hno H)]|].
      intros _. exists c0, sp. split; [exact HC|]. split; [|split; reflexivity].
      eapply fpos_key_unocc; eauto.
    + exists false, (sl n o uq), None. split; [reflexivity|].
      split; [|discriminate]. split; [discriminate|]. intros (u & Ha).
      assert (oc uq = true) by (apply (L_occ _ _ _ HL); eauto). congruence.
Qed.

Corollary query_spec uq r : uq < n ->
  (qf_query_internal n fuel0 s (sl n o uq) r = true <-> exists u, c u = Some (uq, r)).
Proof.
  intros Hu. unfold qf_query_internal.
  destruct (scan_spec uq r false Hu) as (pr & posr & sor & E & Hpr & _). rewrite E. exact Hpr.
Qed.
End Scan.

Print Assumptions scan_spec.
Print Assumptions query_spec.
