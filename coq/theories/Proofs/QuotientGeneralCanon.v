(* Proofs/QuotientGeneralCanon.v — C13 for ALL widths, part 7: the state is canonical.
   Two states that represent lines (from possibly different origins) with the same set of pairs have the
   same four lists: the layout of a quotient filter depends only on the SET it holds
   (history independence), for every width. *)
From PDS Require Import Model.Quotient Proofs.QuotientProofs Proofs.QuotientRename Proofs.QuotientLift.
From PDS Require Import Proofs.QuotientGeneralBase Proofs.QuotientGeneralScan Proofs.QuotientGeneralRot
  Proofs.QuotientGeneral.
From Coq Require Import Lia ZifyN ZifyBool.
Open Scope N_scope.

Arguments N.add : simpl never.
Arguments N.mul : simpl never.
Arguments N.sub : simpl never.
Arguments N.pow : simpl never.
Arguments N.ltb : simpl never.
Arguments N.leb : simpl never.
Arguments N.eqb : simpl never.

Section Canon.
Variable n : N.
Hypothesis n_pos : 0 < n.

Lemma cstart_exists c oc : Line n c oc -> forall u, exists b, CStart c b u.
Proof.
  intros HL. induction u as [|u IH] using N.peano_ind.
  - exists 0. split; [lia|]. split; [apply (shfb_0 n c oc HL)|]. intros w Hw. lia.
  - destruct (shfb c (N.succ u)) eqn:E.
    + destruct IH as (b & H1 & H2 & H3). exists b. split; [lia|]. split; [exact H2|]. intros w Hw.
      destruct (N.eq_dec w (N.succ u)) as [->|Hne]; [exact E|apply H3; lia].
    + exists (N.succ u). split; [lia|]. split; [exact E|]. intros w Hw. lia.
Qed.

(** ** two lines with the same elements, seen from the same origin, are equal *)
Lemma line_unique_aux c1 oc1 c2 oc2 : Line n c1 oc1 -> Line n c2 oc2 ->
  (forall a, (exists u, c1 u = Some a) <-> (exists u, c2 u = Some a)) ->
  forall u, (forall w, w < u -> c1 w = c2 w) -> forall a, c1 u = Some a -> c2 u = Some a.
Proof.
  intros H1 H2 Hmem u Hpre [v r] Ha.
  destruct (proj1 (Hmem (v, r))) as (u2 & Hu2); [eauto|].
  destruct (N.lt_total u2 u) as [H|[H|H]].
  - exfalso. rewrite <- Hpre in Hu2 by auto. pose proof (line_inj n c1 oc1 H1 _ _ _ Hu2 Ha). lia.
  - subst. exact Hu2.
  - exfalso. pose proof (L_le _ _ _ H1 _ _ _ Ha) as Hle.
    destruct (c2 u) as [b|] eqn:Eb.
    + assert (Hl : lexlt b (v, r)) by (apply (line_sorted n c2 oc2 H2 u2 u); auto).
      destruct (proj2 (Hmem b)) as (u1 & Hu1); [eauto|].
      destruct (N.lt_total u1 u) as [H'|[H'|H']].
      * rewrite Hpre in Hu1 by auto. pose proof (line_inj n c2 oc2 H2 _ _ _ Hu1 Eb). lia.
      * subst u1. rewrite Ha in Hu1. inversion Hu1; subst b. exact (lexlt_irrefl _ Hl).
      * assert (Hl' : lexlt (v, r) b) by (apply (line_sorted n c1 oc1 H1 u1 u); auto).
        exact (lexlt_irrefl _ (lexlt_trans _ _ _ Hl Hl')).
    + destruct (no_gap n c2 oc2 H2 u2 v r u Hu2) as (v' & r' & E & _); [lia|]. congruence.
Qed.
Lemma line_unique c1 oc1 c2 oc2 : Line n c1 oc1 -> Line n c2 oc2 ->
  (forall a, (exists u, c1 u = Some a) <-> (exists u, c2 u = Some a)) -> forall u, c1 u = c2 u.
Proof.
  intros H1 H2 Hmem u. induction u as [u IH] using (well_founded_induction N.lt_wf_0).
  destruct (c1 u) as [a|] eqn:E1.
  - symmetry. apply (line_unique_aux c1 oc1 c2 oc2 H1 H2 Hmem u IH a E1).
  - destruct (c2 u) as [b|] eqn:E2; [|reflexivity].
    assert (Hmem' : forall a, (exists u, c2 u = Some a) <-> (exists u, c1 u = Some a)) by (intros a; symmetry; apply Hmem).
    pose proof (line_unique_aux c2 oc2 c1 oc1 H2 H1 Hmem' u (fun w Hw => eq_sym (IH w Hw)) b E2). congruence.
Qed.

(** ** the origin of one representation is a cut point of every other one *)
Lemma cut_common g c1 oc1 o2 c2 oc2 : g < n -> o2 < n -> Line n c1 oc1 -> Line n c2 oc2 ->
  (forall q r, q < n -> ((exists u, c1 u = Some (unw n g q, r)) <-> (exists u, c2 u = Some (unw n o2 q, r)))) ->
  shfb c2 (unw n o2 g) = false.
Proof.
  intros Hg Ho2 H1 H2 Hmem. remember (unw n o2 g) as u eqn:Eu.
  assert (Hu : u < n) by (subst u; apply unw_lt; auto).
  assert (Eg : sl n o2 u = g) by (subst u; apply sl_unw; auto).
  clear Eu.
  destruct (shfb c2 u) eqn:Es; [exfalso|reflexivity].
  destruct (cstart_exists c2 oc2 H2 u) as (c0 & HC). pose proof HC as (HC1 & HC2 & HC3).
  assert (Hc0u : c0 < u) by (destruct (N.eq_dec c0 u) as [E|]; [rewrite E in HC2; congruence|lia]).
  destruct (shfb_true c2 u Es) as (vu & ru & Ecu & Hvu).
  (* the cells c0 .. u of line 2 *)
  assert (Hcells : forall w, c0 <= w <= u -> exists v r, c2 w = Some (v, r) /\ c0 <= v < u).
  { intros w Hw.
    assert (Hne : exists v r, c2 w = Some (v, r)).
    { destruct (N.eq_dec w c0) as [->|Hne].
      - destruct (shfb_true c2 (c0 + 1)) as (v & r & Ec & Hv); [apply HC3; lia|].
        destruct (L_prev _ _ _ H2 _ _ _ Ec Hv) as (v' & r' & Ep & _). replace (c0 + 1 - 1) with c0 in Ep by lia. eauto.
      - destruct (shfb_true c2 w) as (v & r & Ec & _); [apply HC3; lia|]. eauto. }
    destruct Hne as (v & r & Ec). exists v, r. split; [exact Ec|]. split.
    - destruct (N.eq_dec c0 0) as [->|Hc0]; [lia|].
      apply (half n n_pos c2 oc2 H2 c0 ltac:(lia) ltac:(lia) HC2 w v r Ec). lia.
    - destruct (N.eq_dec w u) as [->|Hne]; [rewrite Ecu in Ec; inversion Ec; subst; exact Hvu|].
      assert (Hl : lexlt (v, r) (vu, ru)) by (apply (line_sorted n c2 oc2 H2 u w); auto; lia).
      apply lexlt_fst in Hl. cbn [fst] in Hl. lia. }
  set (L := u - c0).
  set (elem2 := fun w => match c2 w with Some (v, r) => (sl n o2 v, r) | None => (0, 0) end).
  set (elem1 := fun w => match c1 w with Some (v, r) => (sl n g v, r) | None => (0, 0) end).
  assert (Hnd : NoDup (map elem2 (Nseq c0 (S (N.to_nat L))))).
  { apply NoDup_map_on; [|apply Nseq_NoDup]. intros w1 w2 Hw1 Hw2. apply Nseq_In in Hw1, Hw2. unfold elem2.
    destruct (Hcells w1 ltac:(lia)) as (v1 & r1 & E1 & Hv1). destruct (Hcells w2 ltac:(lia)) as (v2 & r2 & E2 & Hv2).
    rewrite E1, E2. intros E. inversion E as [[Ev Er]]. apply (sl_inj n n_pos o2 Ho2) in Ev; [|lia|lia]. subst.
    eapply (line_inj n c2 oc2 H2); eauto. }
  assert (Hincl : incl (map elem2 (Nseq c0 (S (N.to_nat L)))) (map elem1 (Nseq (n - L) (N.to_nat L)))).
  { intros x Hx. apply in_map_iff in Hx as (w & <- & Hw). apply Nseq_In in Hw. unfold elem2.
    destruct (Hcells w ltac:(lia)) as (v & r & Ec & Hv). rewrite Ec.
    assert (Hq : sl n o2 v < n) by (apply sl_lt; auto; lia).
    destruct (proj2 (Hmem (sl n o2 v) r Hq)) as (u1 & Hu1); [exists w; rewrite unw_sl by (auto; lia); exact Ec|].
    assert (Harith : unw n g (sl n o2 v) = n - (u - v)).
    { rewrite <- Eg. unfold sl, unw.
      repeat match goal with |- context [?a <? ?b] => destruct (N.ltb_spec a b) end;
        repeat match goal with |- context [?a <=? ?b] => destruct (N.leb_spec a b) end; lia. }
    pose proof (L_le _ _ _ H1 _ _ _ Hu1) as Hle. pose proof (L_dom _ _ _ H1 _ _ _ Hu1) as Hdom.
    apply in_map_iff. exists u1. split.
    - unfold elem1. rewrite Hu1. rewrite sl_unw by auto. reflexivity.
    - apply Nseq_In. subst L. lia. }
  pose proof (NoDup_incl_length Hnd Hincl) as Hlen. rewrite !map_length, !Nseq_length in Hlen. lia.
Qed.

(** ** uniqueness of the concrete lists *)
Theorem rep_unique s1 s2 o1 c1 oc1 o2 c2 oc2 : o1 < n -> o2 < n ->
  Line n c1 oc1 -> Rep n s1 o1 c1 oc1 -> Line n c2 oc2 -> Rep n s2 o2 c2 oc2 ->
  (forall q r, q < n -> ((exists u, c1 u = Some (unw n o1 q, r)) <-> (exists u, c2 u = Some (unw n o2 q, r)))) ->
  qocc s1 = qocc s2 /\ qcont s1 = qcont s2 /\ qshf s1 = qshf s2 /\ qrem s1 = qrem s2.
Proof.
  intros Ho1 Ho2 H1 R1 H2 R2 Hmem.
  pose proof (cut_common o1 c1 oc1 o2 c2 oc2 Ho1 Ho2 H1 H2 Hmem) as Hcut.
  set (d := unw n o2 o1) in *.
  assert (Hd : d < n) by (apply unw_lt; auto).
  assert (Ed : sl n o2 d = o1) by (apply sl_unw; auto).
  (* line 2 seen from the origin of line 1 *)
  assert (Hex : exists c2' oc2', Line n c2' oc2' /\ Rep n s2 o1 c2' oc2' /\
            forall q r, q < n -> ((exists u, c2' u = Some (unw n o1 q, r)) <-> (exists u, c2 u = Some (unw n o2 q, r)))).
  { destruct (N.eq_dec d 0) as [E0|E0].
    - exists c2, oc2. rewrite E0, sl_0 in Ed by auto. subst o2. split; [exact H2|]. split; [exact R2|]. intros; reflexivity.
    - exists (rotc n d c2), (roto n d oc2).
      split; [apply rot_line; auto; lia|]. split; [rewrite <- Ed; apply rot_rep; auto; lia|].
      intros q r Hq. pose proof (unw_lt n n_pos o2 Ho2 q Hq) as Hv.
      rewrite <- (rot_mem n n_pos c2 oc2 H2 d ltac:(lia) Hd Hcut (unw n o2 q) r Hv).
      replace (unw n o1 q) with (unw n d (unw n o2 q)); [reflexivity|].
      rewrite <- Ed. unfold unw, sl. repeat match goal with |- context [?a <=? ?b] => destruct (N.leb_spec a b) end;
        repeat match goal with |- context [?a <? ?b] => destruct (N.ltb_spec a b) end;
        repeat match goal with H : context [?a <? ?b] |- _ => destruct (N.ltb_spec a b) end; lia. }
  destruct Hex as (c2' & oc2' & H2' & R2' & Hmem').
  assert (Hsame : forall a, (exists u, c1 u = Some a) <-> (exists u, c2' u = Some a)).
  { intros [v r]. split; intros (u & Hu).
    - pose proof (L_le _ _ _ H1 _ _ _ Hu). pose proof (L_dom _ _ _ H1 _ _ _ Hu).
      assert (Hq : sl n o1 v < n) by (apply sl_lt; auto; lia).
      rewrite <- (unw_sl n n_pos o1 Ho1 v) by lia. apply (Hmem' _ r Hq), (Hmem _ r Hq).
      rewrite unw_sl by (auto; lia). eauto.
    - pose proof (L_le _ _ _ H2' _ _ _ Hu). pose proof (L_dom _ _ _ H2' _ _ _ Hu).
      assert (Hq : sl n o1 v < n) by (apply sl_lt; auto; lia).
      rewrite <- (unw_sl n n_pos o1 Ho1 v) by lia. apply (Hmem _ r Hq), (Hmem' _ r Hq).
      rewrite unw_sl by (auto; lia). eauto. }
  pose proof (line_unique c1 oc1 c2' oc2' H1 H2' Hsame) as Heq.
  destruct R1 as (Io1 & Ic1 & Is1 & Ir1), R2' as (Io2 & Ic2 & Is2 & Ir2).
  split; [|split; [|split]].
  - apply (ImgB_inj n n_pos o1 Ho1 _ _ oc1); [exact Io1|]. eapply ImgB_ext; [exact Io2|]. intros u Hu.
    destruct (oc2' u) eqn:E2, (oc1 u) eqn:E1; auto.
    + apply (L_occ _ _ _ H2') in E2 as (w & r & Ew). rewrite <- Heq in Ew.
      assert (oc1 u = true) by (apply (L_occ _ _ _ H1); eauto). congruence.
    + apply (L_occ _ _ _ H1) in E1 as (w & r & Ew). rewrite Heq in Ew.
      assert (oc2' u = true) by (apply (L_occ _ _ _ H2'); eauto). congruence.
  - apply (ImgB_inj n n_pos o1 Ho1 _ _ (contb c1)); [exact Ic1|]. eapply ImgB_ext; [exact Ic2|]. intros u Hu. unfold contb. rewrite !Heq. reflexivity.
  - apply (ImgB_inj n n_pos o1 Ho1 _ _ (shfb c1)); [exact Is1|]. eapply ImgB_ext; [exact Is2|]. intros u Hu. unfold shfb. rewrite !Heq. reflexivity.
  - apply (ImgN_inj n n_pos o1 Ho1 _ _ (remf c1)); [exact Ir1|]. eapply ImgN_ext; [exact Ir2|]. intros u Hu. unfold remf. rewrite !Heq. reflexivity.
Qed.
End Canon.

(** ** history independence, every width *)
Section CanonInv.
Variable bq : N.
Notation n := (cn bq).

Theorem Inv_canonical s1 s2 A1 A2 : Inv bq s1 A1 -> Inv bq s2 A2 -> (forall x, In x A1 <-> In x A2) ->
  qbq s1 = qbq s2 -> qbr s1 = qbr s2 -> s1 = s2.
Proof.
  intros (Hnd1 & Hq1 & Hl1 & Hc1 & o1 & c1 & oc1 & Ho1 & HL1 & HR1 & Hm1)
         (Hnd2 & Hq2 & Hl2 & Hc2 & o2 & c2 & oc2 & Ho2 & HL2 & HR2 & Hm2) Hset Ebq Ebr.
  assert (Hlen : length A1 = length A2).
  { apply Nat.le_antisymm; apply NoDup_incl_length; auto; intros x Hx; apply Hset; exact Hx. }
  destruct (rep_unique n (n_pos bq) s1 s2 o1 c1 oc1 o2 c2 oc2 Ho1 Ho2 HL1 HR1 HL2 HR2) as (E1 & E2 & E3 & E4).
  { intros q r Hq. rewrite <- (Hm1 q r Hq), <- (Hm2 q r Hq). apply Hset. }
  destruct s1 as [xo1 xc1 xs1 xr1 xk1 xq1 xb1], s2 as [xo2 xc2 xs2 xr2 xk2 xq2 xb2].
  cbn [qocc qcont qshf qrem qcnt qbq qbr] in *. subst. f_equal. lia.
Qed.

Theorem qf_history_independent_general br xs ys : Forall (qok bq) xs -> Forall (qok bq) ys ->
  (forall p, In p xs <-> In p ys) -> (length (nodup pair_dec xs) <= N.to_nat n)%nat ->
  snd (qf_run bq (qf_empty bq br) xs) = snd (qf_run bq (qf_empty bq br) ys).
Proof.
  intros Hx Hy Hiff Hlen.
  assert (Hlen' : (length (nodup pair_dec ys) <= N.to_nat n)%nat).
  { assert (E : length (nodup pair_dec ys) = length (nodup pair_dec xs)); [|lia].
    apply Nat.le_antisymm; apply NoDup_incl_length; try apply NoDup_nodup;
      intros p Hp; apply nodup_In; apply nodup_In in Hp; apply Hiff; exact Hp. }
  assert (Hacc : forall zs, Forall (qok bq) zs -> (length (nodup pair_dec zs) <= N.to_nat n)%nat ->
            forall p, In p (snd (lrun bq [] zs)) <-> In p zs).
  { intros zs Hz Hl p. split.
    - intros Hin. apply lrun_incl in Hin as [[]|Hin]. exact Hin.
    - intros Hin. apply lrun_no_full_In; auto. intros Hf.
      destruct (lrun_full_witness_g bq zs [] (NoDup_nil _) Hf) as (B & HB & HL & Hi). cbn [app] in Hi.
      assert (Hi' : incl B (nodup pair_dec zs)) by (intros x Hx'; apply nodup_In, Hi, Hx').
      pose proof (NoDup_incl_length HB Hi'). lia. }
  destruct (run_sim bq xs _ [] (Inv_empty bq br) Hx) as [_ HI1].
  destruct (run_sim bq ys _ [] (Inv_empty bq br) Hy) as [_ HI2].
  pose proof (qf_run_shape bq xs (qf_empty bq br)) as (_&_&_&_&Hq1&Hr1).
  pose proof (qf_run_shape bq ys (qf_empty bq br)) as (_&_&_&_&Hq2&Hr2).
  eapply Inv_canonical; eauto; [|congruence|congruence].
  intros p. rewrite (Hacc xs Hx Hlen), (Hacc ys Hy Hlen'). apply Hiff.
Qed.
End CanonInv.

Print Assumptions rep_unique.
Print Assumptions Inv_canonical.
Print Assumptions qf_history_independent_general.
