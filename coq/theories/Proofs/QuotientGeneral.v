(* Proofs/QuotientGeneral.v — C13 for ALL widths, part 5: the main theorems.
   For every bits_quotient [bq] (n = 2^bq slots) and arbitrary remainders, after ANY history of
   [qf_insert_internal] calls with quotients < n, starting from the empty filter:
     qf_exact_general        results = those of the list specification [lrun] (Ok(true) / Ok(false) /
                             Err(Full)), never Stuck; query = membership; qcnt = number of accepted pairs
     qf_exact_set_general    while at most n distinct pairs were offered the filter IS their set
     qf_exact_keys_general   the same for the public operations (hash + calc_quotient_remainder)
   Files of the development (all axiom-free, no closure computation involved):
     QuotientGeneralBase.v    ring offsets [sl]/[unw], the abstract line [Line], representation [Rep]
     QuotientGeneralScan.v    [scan_spec], [query_spec]: scan/query on a represented line (full tables included)
     QuotientGeneralInsert.v  [chain_spec], [insert_spec]: insert into a line whose last offset is empty
     QuotientGeneralRot.v     change of origin at a cut point ([rot_line], [rot_rep])
     QuotientGeneralDecode.v  [decode_spec]: decode returns the stored pairs
     QuotientGeneral.v        this file: [Inv], [step], [qf_exact_general] and corollaries
     QuotientGeneralCanon.v   [rep_unique], [Inv_canonical], [qf_history_independent_general]
     QuotientGeneralUnion.v   [qf_union_general], reachable states, C01 and the algebra of union, every width
   No hypothesis [1 <= bq] is needed: the theorems hold for every [bq : N] (n = 2^bq >= 1).
   The invariant [Inv s A]: the state [s] represents, from some origin, a canonical line (see
   QuotientGeneralBase.v) whose elements are exactly the accepted pairs [A]. *)
From PDS Require Import Model.Quotient Proofs.QuotientProofs Proofs.QuotientRename Proofs.QuotientLift.
From PDS Require Import Proofs.QuotientGeneralBase Proofs.QuotientGeneralScan Proofs.QuotientGeneralInsert
  Proofs.QuotientGeneralRot.
From Coq Require Import Lia ZifyN ZifyBool.
Open Scope N_scope.

Arguments N.add : simpl never.
Arguments N.mul : simpl never.
Arguments N.sub : simpl never.
Arguments N.pow : simpl never.
Arguments N.ltb : simpl never.
Arguments N.leb : simpl never.
Arguments N.eqb : simpl never.

Lemma Nseq_NoDup k : forall a, NoDup (Nseq a k).
Proof.
  induction k as [|k IH]; intros a; cbn [Nseq]; constructor; [|apply IH].
  rewrite Nseq_In. lia.
Qed.

Lemma find_empty (c : cellT) : forall k, (exists u, u < k /\ c u = None) \/ (forall u, u < k -> c u <> None).
Proof.
  induction k as [|k IH] using N.peano_ind; [right; intros u Hu; lia|].
  destruct IH as [(u & Hu & E)|IH]; [left; exists u; split; [lia|exact E]|].
  destruct (c k) eqn:E.
  - right. intros u Hu. destruct (N.eq_dec u k) as [->|Hne]; [congruence|apply IH; lia].
  - left. exists k. split; [lia|exact E].
Qed.

Section General.
Variable bq : N.
Notation n := (cn bq).
Notation fuel := (cfuel bq).

Lemma n_pos : 0 < n.
Proof. unfold cn. pose proof (pow2_nz bq). lia. Qed.
Lemma fuel_ok : (N.to_nat n < fuel)%nat.
Proof. unfold cfuel. lia. Qed.

(* the state [s] holds exactly the pairs of [A], laid out canonically *)
Definition Inv (s : qf) (A : list (N * N)) : Prop :=
  NoDup A /\ Forall (qok bq) A /\ (length A <= N.to_nat n)%nat /\ qcnt s = N.of_nat (length A) /\
  exists o c oc, o < n /\ Line n c oc /\ Rep n s o c oc /\
    (forall q r, q < n -> (In (q, r) A <-> exists u, c u = Some (unw n o q, r))).

(** ** a line with fewer than n elements has an empty offset *)
Lemma pigeonhole o c oc A : o < n -> Line n c oc -> NoDup A ->
  (forall q r, q < n -> (In (q, r) A <-> exists u, c u = Some (unw n o q, r))) ->
  (length A < N.to_nat n)%nat -> exists k, k < n /\ c k = None.
Proof.
  intros Ho HL Hnd Hmem Hlen. destruct (find_empty c n) as [(u & Hu & E)|Hall]; [eauto|exfalso].
  set (f := fun u => match c u with Some (v, r) => (sl n o v, r) | None => (0, 0) end).
  assert (Hin : incl (map f (Nseq 0 (N.to_nat n))) A).
  { intros x Hx. apply in_map_iff in Hx as (u & <- & Hu). apply Nseq_In in Hu.
    unfold f. destruct (c u) as [[v r]|] eqn:E; [|exfalso; apply (Hall u); [lia|exact E]].
    pose proof (L_le _ _ _ HL _ _ _ E). pose proof (L_dom _ _ _ HL _ _ _ E).
    apply Hmem; [apply sl_lt; [apply n_pos|exact Ho|lia]|]. exists u. rewrite unw_sl; auto using n_pos. lia. }
  assert (Hnd' : NoDup (map f (Nseq 0 (N.to_nat n)))).
  { apply NoDup_map_on; [|apply Nseq_NoDup]. intros u1 u2 H1 H2. apply Nseq_In in H1, H2. unfold f.
    destruct (c u1) as [[v1 r1]|] eqn:E1; [|exfalso; apply (Hall u1); [lia|exact E1]].
    destruct (c u2) as [[v2 r2]|] eqn:E2; [|exfalso; apply (Hall u2); [lia|exact E2]].
    intros E. inversion E as [[Ev Er]]. subst r2.
    pose proof (L_le _ _ _ HL _ _ _ E1). pose proof (L_dom _ _ _ HL _ _ _ E1).
    pose proof (L_le _ _ _ HL _ _ _ E2). pose proof (L_dom _ _ _ HL _ _ _ E2).
    apply (sl_inj n n_pos o Ho) in Ev; [|lia|lia]. subst v2.
    eapply (line_inj n c oc HL); eauto. }
  pose proof (NoDup_incl_length Hnd' Hin) as Hle. rewrite map_length, Nseq_length in Hle. lia.
Qed.

(* every non-full line can be seen from an origin such that its last offset is empty *)
Lemma normalize s A : Inv s A -> (length A < N.to_nat n)%nat ->
  exists o c oc, o < n /\ Line n c oc /\ Rep n s o c oc /\ c (n - 1) = None /\
    (forall q r, q < n -> (In (q, r) A <-> exists u, c u = Some (unw n o q, r))).
Proof.
  intros (Hnd & HqA & Hlen & Hcnt & o & c & oc & Ho & HL & HR & Hmem) Hlt.
  destruct (pigeonhole o c oc A Ho HL Hnd Hmem Hlt) as (k & Hk & Ek).
  destruct (N.eq_dec (k + 1) n) as [E|E].
  - exists o, c, oc. replace (n - 1) with k by lia. auto 10.
  - assert (Hd : k + 1 < n) by lia.
    assert (Ek' : c (k + 1 - 1) = None) by (replace (k + 1 - 1) with k by lia; exact Ek).
    assert (Hcut : shfb c (k + 1) = false) by (apply (shfb_after_empty n c oc HL); [lia|exact Ek']).
    exists (sl n o (k + 1)), (rotc n (k + 1) c), (roto n (k + 1) oc).
    split; [apply sl_lt; [apply n_pos|exact Ho|lia]|].
    split; [apply rot_line; auto using n_pos; lia|].
    split; [apply rot_rep; auto using n_pos; lia|].
    split; [apply (rot_last n n_pos c (k + 1)); auto; lia|].
    intros q r Hq. rewrite (Hmem q r Hq).
    pose proof (unw_lt n n_pos o Ho q Hq) as Hv.
    rewrite <- (rot_mem n n_pos c oc HL (k + 1) ltac:(lia) Hd Hcut (unw n o q) r Hv).
    replace (unw n (sl n o (k + 1)) q) with (unw n (k + 1) (unw n o q)); [reflexivity|].
    unfold unw, sl. repeat match goal with |- context [?a <=? ?b] => destruct (N.leb_spec a b) end;
      repeat match goal with |- context [?a <? ?b] => destruct (N.ltb_spec a b) end;
      repeat match goal with H : context [?a <? ?b] |- _ => destruct (N.ltb_spec a b) end; lia.
Qed.

Lemma Inv_empty br : Inv (qf_empty bq br) [].
Proof.
  split; [constructor|]. split; [constructor|]. split; [cbn; lia|]. split; [reflexivity|].
  exists 0, (fun _ => None), (fun _ => false). split; [apply n_pos|]. split; [|split].
  - split; try discriminate. intros v. split; [discriminate|intros (u & r & E); discriminate].
  - unfold Rep, ImgB, ImgN, qf_empty; cbn [qocc qcont qshf qrem]. rewrite !repeat_length.
    repeat split; auto; intros u Hu; rewrite ?getb_repeat_false, ?getn_repeat0;
      unfold contb, shfb, remf; rewrite ?andb_false_r; reflexivity.
  - intros q r Hq. split; [intros []|intros (u & E); discriminate].
Qed.

(** ** one step *)
Lemma step s A x : Inv s A -> qok bq x ->
  qry bq s x = lmem x A /\ fst (ins bq s x) = fst (lstep bq A x) /\ Inv (snd (ins bq s x)) (snd (lstep bq A x)).
Proof.
  intros HI Hx. pose proof HI as (Hnd & HqA & Hlen & Hcnt & o & c & oc & Ho & HL & HR & Hmem).
  destruct x as [q r]. unfold qok in Hx. cbn [fst] in Hx.
  pose proof (unw_lt n n_pos o Ho q Hx) as Hu. pose proof (sl_unw n n_pos o Ho q Hx) as Eq.
  assert (Hq : qry bq s (q, r) = lmem (q, r) A).
  { unfold qry. cbn [fst snd]. rewrite <- Eq.
    pose proof (query_spec n n_pos fuel fuel_ok s o c oc Ho HL HR (unw n o q) r Hu) as Hqs.
    rewrite Eq in *. pose proof (lmem_In (q, r) A) as Hl. pose proof (Hmem q r Hx) as Hm.
    destruct (qf_query_internal n fuel s q r), (lmem (q, r) A); auto.
    - symmetry. apply Hl, Hm, Hqs. reflexivity.
    - apply Hqs, Hm, Hl. reflexivity. }
  split; [exact Hq|].
  unfold lstep. destruct (lmem (q, r) A) eqn:El.
  - (* present: Ok(false) *)
    assert (Hp : exists u, c u = Some (unw n o q, r)) by (apply Hmem; auto; apply lmem_In; exact El).
    destruct (scan_spec n n_pos fuel fuel_ok s o c oc Ho HL HR (unw n o q) r true Hu)
      as (pr & posr & sor & Escan & Hpr & _). rewrite Eq in Escan.
    assert (pr = true) by (apply Hpr; exact Hp). subst pr.
    unfold ins, qf_insert_internal. cbn [fst snd]. rewrite Escan. cbn [fst snd]. split; [reflexivity|exact HI].
  - assert (Habs : ~ exists u, c u = Some (unw n o q, r)).
    { intros Hp. apply Hmem in Hp; auto. apply lmem_In in Hp. congruence. }
    destruct (N.eqb_spec (N.of_nat (length A)) n) as [Efull|Efull].
    + (* full: Err(Full) *)
      destruct (scan_spec n n_pos fuel fuel_ok s o c oc Ho HL HR (unw n o q) r true Hu)
        as (pr & posr & sor & Escan & Hpr & _). rewrite Eq in Escan.
      assert (pr = false) by (destruct pr; [exfalso; apply Habs, Hpr; reflexivity|reflexivity]). subst pr.
      unfold ins, qf_insert_internal. cbn [fst snd]. rewrite Escan.
      destruct (N.eqb_spec (qcnt s) n) as [_|Ne]; [|congruence].
      cbn [fst snd]. split; [reflexivity|exact HI].
    + (* room: Ok(true) *)
      clear o c oc Ho HL HR Hmem Hu Eq Habs.
      destruct (normalize s A HI ltac:(lia)) as (o & c & oc & Ho & HL & HR & Hlast & Hmem).
      pose proof (unw_lt n n_pos o Ho q Hx) as Hu. pose proof (sl_unw n n_pos o Ho q Hx) as Eq.
      assert (Habs : ~ exists u, c u = Some (unw n o q, r)).
      { intros Hp. apply Hmem in Hp; auto. apply lmem_In in Hp. congruence. }
      destruct (insert_spec n n_pos fuel fuel_ok s o c oc Ho HL HR (unw n o q) r Hu Habs Hlast ltac:(lia))
        as (s' & c' & Eins & HL' & HR' & Hcnt' & _ & _ & Hmem').
      rewrite Eq in Eins. unfold ins. cbn [fst snd]. rewrite Eins. cbn [fst snd]. split; [reflexivity|].
      split; [apply NoDup_snoc; [exact Hnd|intros Hin; apply lmem_In in Hin; congruence]|].
      split; [apply Forall_app; split; [exact HqA|constructor; [exact Hx|constructor]]|].
      split; [rewrite app_length; cbn [length]; lia|].
      split; [rewrite app_length; cbn [length]; lia|].
      exists o, c', (fupd oc (unw n o q) true). split; [exact Ho|]. split; [exact HL'|]. split; [exact HR'|].
      intros q' r' Hq'. rewrite in_app_iff. cbn [In]. rewrite (Hmem' (unw n o q', r')), (Hmem q' r' Hq').
      split.
      * intros [H|[H|[]]]; [right; exact H|left]. inversion H; subst. reflexivity.
      * intros [H|H]; [right; left|left; exact H]. inversion H as [[Ev Er]]. f_equal.
        rewrite <- (sl_unw n n_pos o Ho q Hx), <- (sl_unw n n_pos o Ho q' Hq'), Ev. reflexivity.
Qed.

(** ** histories *)
Lemma run_sim xs : forall s A, Inv s A -> Forall (qok bq) xs ->
  fst (qf_run bq s xs) = fst (lrun bq A xs) /\ Inv (snd (qf_run bq s xs)) (snd (lrun bq A xs)).
Proof.
  induction xs as [|x t IH]; intros s A HI Hxs; cbn [qf_run lrun]; [split; [reflexivity|exact HI]|].
  inversion Hxs as [|? ? Hx Ht]; subst.
  destruct (step s A x HI Hx) as (_ & Hres & HI').
  destruct (ins bq s x) as [res s1]. destruct (lstep bq A x) as [res' A1]. cbn [fst snd] in *. subst res'.
  destruct (IH s1 A1 HI' Ht) as [IH1 IH2].
  destruct (qf_run bq s1 t) as [rs s2]. destruct (lrun bq A1 t) as [rs' A2]. cbn [fst snd] in *.
  split; [congruence|exact IH2].
Qed.

(* the final state is also reached by inserting only the accepted pairs *)
Lemma run_accepted xs : forall s A, Inv s A -> Forall (qok bq) xs ->
  exists B, snd (lrun bq A xs) = A ++ B /\ snd (qf_run bq s xs) = snd (qf_run bq s B).
Proof.
  induction xs as [|x t IH]; intros s A HI Hxs; cbn [qf_run lrun].
  - exists []. rewrite app_nil_r. split; reflexivity.
  - inversion Hxs as [|? ? Hx Ht]; subst.
    destruct (step s A x HI Hx) as (_ & Hres & HI').
    destruct (ins bq s x) as [res s1] eqn:Ei. cbn [fst snd] in *.
    unfold lstep in *. destruct (lmem x A) eqn:El; cbn [fst snd] in *.
    + subst res. assert (s1 = s) by (unfold ins in Ei; eapply qf_insert_internal_err_id; [exact Ei|discriminate]).
      subst s1. destruct (IH s A HI' Ht) as (B & E1 & E2). exists B.
      destruct (qf_run bq s t) as [rs s2]. destruct (lrun bq A t) as [rs' A2]. cbn [fst snd] in *. auto.
    + destruct (N.of_nat (length A) =? n); cbn [fst snd] in *.
      * subst res. assert (s1 = s) by (unfold ins in Ei; eapply qf_insert_internal_err_id; [exact Ei|discriminate]).
        subst s1. destruct (IH s A HI' Ht) as (B & E1 & E2). exists B.
        destruct (qf_run bq s t) as [rs s2]. destruct (lrun bq A t) as [rs' A2]. cbn [fst snd] in *. auto.
      * subst res. destruct (IH s1 (A ++ [x]) HI' Ht) as (B & E1 & E2). exists (x :: B).
        cbn [qf_run]. rewrite Ei.
        destruct (qf_run bq s1 t) as [rs s2]. destruct (lrun bq (A ++ [x]) t) as [rs' A2].
        destruct (qf_run bq s1 B) as [rs'' s3]. cbn [fst snd] in *.
        rewrite <- app_assoc in E1. cbn [app] in E1. auto.
Qed.

(* C13 for EVERY quotient width and arbitrary remainders *)
Theorem qf_exact_general br (xs : list (N * N)) : Forall (qok bq) xs ->
  let e := qf_empty bq br in
  let A := snd (lrun bq [] xs) in
  let s := snd (qf_run bq e xs) in
  fst (qf_run bq e xs) = fst (lrun bq [] xs) /\
  ~ In QStuck (fst (qf_run bq e xs)) /\
  s = snd (qf_run bq e A) /\
  NoDup A /\ (length A <= N.to_nat n)%nat /\
  qcnt s = N.of_nat (length A) /\
  (forall p, qok bq p -> qry bq s p = lmem p A) /\
  (forall p, qok bq p -> fst (ins bq s p) = fst (lstep bq A p) /\
                         snd (ins bq s p) = snd (qf_run bq e (snd (lstep bq A p)))).
Proof.
  intros Hxs e A s. subst e A s.
  destruct (run_sim xs _ [] (Inv_empty br) Hxs) as [Hres HI].
  destruct (run_accepted xs _ [] (Inv_empty br) Hxs) as (B & EB & Es). cbn [app] in EB.
  rewrite EB in *. rewrite <- Es.
  pose proof HI as (Hnd & HqA & Hlen & Hcnt & _).
  split; [exact Hres|]. split; [rewrite Hres; apply lrun_not_stuck|]. split; [reflexivity|].
  split; [exact Hnd|]. split; [exact Hlen|]. split; [exact Hcnt|].
  split; [intros p Hp; apply (step _ _ p HI Hp)|].
  intros p Hp. destruct (step _ _ p HI Hp) as (_ & Hr & _). split; [exact Hr|].
  unfold lstep in *. destruct (lmem p B); cbn [fst snd] in *.
  - rewrite <- Es.
    destruct (ins bq (snd (qf_run bq (qf_empty bq br) xs)) p) as [res s1] eqn:Ei. cbn [fst snd] in *. subst res.
    unfold ins in Ei. eapply qf_insert_internal_err_id; [exact Ei|discriminate].
  - destruct (N.of_nat (length B) =? n); cbn [fst snd] in *.
    + rewrite <- Es.
      destruct (ins bq (snd (qf_run bq (qf_empty bq br) xs)) p) as [res s1] eqn:Ei. cbn [fst snd] in *. subst res.
      unfold ins in Ei. eapply qf_insert_internal_err_id; [exact Ei|discriminate].
    + rewrite qf_run_snoc, <- Es. reflexivity.
Qed.

(** ** the accepted list versus the history (as in QuotientLift.v, without the closure hypothesis) *)
Lemma lrun_full_witness_g xs : forall A, NoDup A -> In QFull (fst (lrun bq A xs)) ->
  exists B, NoDup B /\ length B = S (N.to_nat n) /\ incl B (A ++ xs).
Proof.
  induction xs as [|x t IH]; intros A Hnd; cbn [lrun fst]; [intros []|].
  unfold lstep. destruct (lmem x A) eqn:Em.
  - specialize (IH A Hnd). destruct (lrun bq A t) as [rs A'']. cbn [fst] in *.
    intros [E|Hin]; [discriminate|]. destruct (IH Hin) as (B & HB & HL & Hi). exists B. repeat split; auto.
    intros p Hp. apply Hi in Hp. rewrite in_app_iff in *. cbn [In]. tauto.
  - assert (Hnx : ~ In x A) by (intros Hin; apply lmem_In in Hin; congruence).
    destruct (N.eqb_spec (N.of_nat (length A)) n) as [E|E].
    + intros _. exists (A ++ [x]). split; [apply NoDup_snoc; auto|]. split.
      * rewrite app_length. cbn [length]. lia.
      * intros p Hp. rewrite in_app_iff in *. cbn [In] in *. tauto.
    + specialize (IH (A ++ [x]) (NoDup_snoc A x Hnd Hnx)). destruct (lrun bq (A ++ [x]) t) as [rs A'']. cbn [fst] in *.
      intros [E'|Hin]; [discriminate|]. destruct (IH Hin) as (B & HB & HL & Hi). exists B. repeat split; auto.
      intros p Hp. apply Hi in Hp. rewrite !in_app_iff in *. cbn [In] in *. tauto.
Qed.

(* headline: while at most 2^bq distinct pairs were offered the filter is exactly their set *)
Theorem qf_exact_set_general br (xs : list (N * N)) : Forall (qok bq) xs ->
  (length (nodup pair_dec xs) <= N.to_nat n)%nat ->
  let s := snd (qf_run bq (qf_empty bq br) xs) in
  (forall p, qok bq p -> (qry bq s p = true <-> In p xs)) /\
  qcnt s = N.of_nat (length (nodup pair_dec xs)) /\
  (forall r, In r (fst (qf_run bq (qf_empty bq br) xs)) -> r = QOkT \/ r = QOkF).
Proof.
  intros Hxs Hlen s. subst s.
  destruct (qf_exact_general br xs Hxs) as (Hres & Hns & _ & Hnd & _ & Hc & Hq & _). cbv zeta in *.
  assert (Hnf : ~ In QFull (fst (lrun bq [] xs))).
  { intros Hin. destruct (lrun_full_witness_g xs [] (NoDup_nil _) Hin) as (B & HB & HL & Hi). cbn [app] in Hi.
    assert (Hi' : incl B (nodup pair_dec xs)) by (intros p Hp; apply nodup_In, Hi, Hp).
    pose proof (NoDup_incl_length HB Hi'). lia. }
  assert (Hiff : forall p, In p (snd (lrun bq [] xs)) <-> In p xs).
  { intros p. split.
    - intros Hin. apply lrun_incl in Hin as [[]|Hin]. exact Hin.
    - intros Hin. apply lrun_no_full_In; auto. }
  split; [|split].
  - intros p Hp. rewrite Hq by auto. rewrite lmem_In. apply Hiff.
  - rewrite Hc. f_equal. apply Nat.le_antisymm; apply NoDup_incl_length.
    + exact Hnd.
    + intros p Hp. apply nodup_In, Hiff, Hp.
    + apply NoDup_nodup.
    + intros p Hp. apply Hiff. apply nodup_In in Hp. exact Hp.
  - intros r Hr. rewrite Hres in Hr. rewrite Hres in Hns.
    destruct r; auto; contradiction.
Qed.

(** ** public operations at width (bq, br) *)
Section Keys.
Variable br : N.
Variable H : hashfn.
Hypothesis Hw : widths_ok bq br.
Hypothesis Hh : hash64 H.
Notation kp := (key_pair bq br H).
Notation e := (qf_empty bq br).

Theorem qf_exact_keys_general (ks : list N) :
  let ps := map kp ks in
  let A := snd (lrun bq [] ps) in
  let s := snd (qf_run_keys H e ks) in
  fst (qf_run_keys H e ks) = fst (lrun bq [] ps) /\
  ~ In QStuck (fst (qf_run_keys H e ks)) /\
  NoDup A /\ (length A <= N.to_nat n)%nat /\
  qf_len s = N.of_nat (length A) /\
  (forall x, qf_query H s x = lmem (kp x) A) /\
  (forall x, fst (qf_insert H s x) = fst (lstep bq A (kp x))).
Proof.
  intros ps A s. subst A s.
  assert (Hps : Forall (qok bq) ps).
  { apply Forall_forall. intros p Hp. apply in_map_iff in Hp as (x & <- & _). apply (kp_qok bq br H Hw Hh). }
  rewrite (qf_run_keys_int bq br H ks e eq_refl eq_refl). fold ps.
  destruct (qf_exact_general br ps Hps) as (H1 & H2 & _ & H4 & H5 & H6 & H7 & H8). cbv zeta in *.
  pose proof (qf_run_shape bq ps e) as (_&_&_&_&Hq&Hr). cbn [qbq qbr qf_empty] in Hq, Hr.
  split; [exact H1|]. split; [exact H2|]. split; [exact H4|]. split; [exact H5|]. split; [exact H6|].
  split; intros x.
  - rewrite (qf_query_shape_int bq br H _ x Hq Hr). apply H7, (kp_qok bq br H Hw Hh).
  - rewrite (qf_insert_shape_int bq br H _ x Hq Hr). apply H8, (kp_qok bq br H Hw Hh).
Qed.

Theorem qf_exact_keys_set_general (ks : list N) :
  let ps := map kp ks in
  (length (nodup pair_dec ps) <= N.to_nat n)%nat ->
  let s := snd (qf_run_keys H e ks) in
  (forall x, qf_query H s x = true <-> In (kp x) ps) /\
  qf_len s = N.of_nat (length (nodup pair_dec ps)) /\
  (forall r, In r (fst (qf_run_keys H e ks)) -> r = QOkT \/ r = QOkF).
Proof.
  intros ps Hlen s. subst s.
  assert (Hps : Forall (qok bq) ps).
  { apply Forall_forall. intros p Hp. apply in_map_iff in Hp as (x & <- & _). apply (kp_qok bq br H Hw Hh). }
  rewrite (qf_run_keys_int bq br H ks e eq_refl eq_refl). fold ps.
  destruct (qf_exact_set_general br ps Hps Hlen) as (H1 & H2 & H3). cbv zeta in *.
  pose proof (qf_run_shape bq ps e) as (_&_&_&_&Hq&Hr). cbn [qbq qbr qf_empty] in Hq, Hr.
  split; [|split; [exact H2|exact H3]].
  intros x. rewrite (qf_query_shape_int bq br H _ x Hq Hr). apply H1, (kp_qok bq br H Hw Hh).
Qed.
End Keys.
End General.

(* ========================================================================= *)
(** * Non-vacuity                                                            *)
(* ========================================================================= *)
(* width bq = 5 (32 slots), far beyond the closure computations: 33 distinct pairs, all with the LAST
   quotient, so the single cluster wraps around the end of the table and finally fills it *)
Definition demo_xs : list (N * N) := map (fun i => (31, 1000000007 * (i + 1))) (Nseq 0 33).
Example demo_qok : Forall (qok 5) demo_xs.
Proof. apply Forall_forall. intros p Hp. apply in_map_iff in Hp as (i & <- & _). vm_compute. reflexivity. Qed.
Example demo_results : fst (qf_run 5 (qf_empty 5 40) demo_xs) = repeat QOkT 32 ++ [QFull].
Proof. vm_compute. reflexivity. Qed.
Example demo_results_spec : fst (lrun 5 [] demo_xs) = repeat QOkT 32 ++ [QFull].
Proof. vm_compute. reflexivity. Qed.
Example Inv_nonvacuous : Inv 5 (snd (qf_run 5 (qf_empty 5 40) demo_xs)) (firstn 32 demo_xs).
Proof.
  destruct (run_sim 5 demo_xs _ [] (Inv_empty 5 40) demo_qok) as [_ HI].
  replace (firstn 32 demo_xs) with (snd (lrun 5 [] demo_xs)) by (vm_compute; reflexivity). exact HI.
Qed.
(* a mixed history at bits_quotient 4 with a wrap-around, a duplicate and queries *)
Example demo_mixed :
  let xs := [(15, 3); (15, 1); (14, 7); (15, 2); (0, 4); (15, 1); (3, 3)] in
  Forall (qok 4) xs /\
  fst (qf_run 4 (qf_empty 4 7) xs) = [QOkT; QOkT; QOkT; QOkT; QOkT; QOkF; QOkT] /\
  qry 4 (snd (qf_run 4 (qf_empty 4 7) xs)) (0, 4) = true /\ qry 4 (snd (qf_run 4 (qf_empty 4 7) xs)) (0, 3) = false.
Proof. split; [repeat constructor|]. vm_compute. auto. Qed.

Print Assumptions qf_exact_general.
Print Assumptions qf_exact_set_general.
Print Assumptions qf_exact_keys_general.
Print Assumptions qf_exact_keys_set_general.
