(* Proofs/HllCountReal.v — HyperLogLog::count() (Model/HllCount.v) over the REAL numbers.

   In exact real arithmetic a sketch with k <= 8 registers set (and precision b >= 9) counts exactly k :
   count() takes the linear-counting branch h = m * ln (m / (m - k)) and k <= h < k + 1.

   Layout
     1. a generic (any arithmetic record, closed under the global context) description of the linear-counting branch;
     2. the instance RNum / RofN / Rtrunc on Coq's classical reals;
     3. the analytic core [linear_counting_bracket] (only uses 1 + x <= exp x; no [interval]);
     4. [count_small_exact_R], [count_empty_R] and examples;
     5. the constant of the relative error, sqrt (3 ln 2 - 1) = 1.0389.. ([interval]; its extra assumptions stay there).

   Everything from part 2 on depends on the standard library's classical-reals assumptions; see the
   [Print Assumptions] at the end.  EXCEPTION to AGENT_GUIDE (granted for this file): Reals / Coquelicot /
   Interval are imported here.  Rtrunc does not saturate at usize::MAX (reals are unbounded, the values
   reached in the theorems are <= 8). *)
From PDS Require Import Model.HllCount Proofs.HllTables Proofs.HllCountProofs.
From Coq Require Import Reals Lra Lia.
From Coq Require Import ZifyNat ZifyN ZifyBool.

Local Open Scope N_scope.

(* ------------------------------------------------------------------ *)
(* 1. generic: the linear-counting branch of count()                   *)
(* ------------------------------------------------------------------ *)
(* number of registers that are set *)
Definition count_nonzeros (regs : list N) : N := lenN (filter (fun x => negb (x =? 0)) regs).

Lemma count_zeros_aux regs c :
  fold_left (fun c x => if x =? 0 then c + 1 else c) regs c + count_nonzeros regs = c + lenN regs.
Proof.
  unfold count_nonzeros, lenN. revert c. induction regs as [|x regs IH]; intros c.
  - simpl. lia.
  - cbn [fold_left filter length]. destruct (N.eqb_spec x 0) as [Z|NZ]; cbn [negb length].
    + rewrite IH. lia.
    + rewrite Nat2N.inj_succ. specialize (IH c). lia.
Qed.

Lemma count_zeros_nonzeros regs : count_zeros regs + count_nonzeros regs = lenN regs.
Proof. unfold count_zeros. rewrite count_zeros_aux. lia. Qed.

Section LinearBranch.
Variable A : arith.
Variable ofN : N -> aT A.
Variable ln : aT A -> aT A.
Variable trunc : aT A -> N.

(* some register is zero, and h = linear_counting m v is below the threshold : count() = trunc h *)
Theorem count_linear_gen b regs v thr :
  leb_total A -> 4 <= b <= 18 -> Forall (fun r => r < 256) regs ->
  count_zeros regs = v -> v <> 0 -> h_threshold b = Some thr ->
  let h := linear_counting A ofN ln (ofN (lenN regs)) v in
  aleb A h (ofN thr) = true ->
  h_count A ofN ln trunc b regs = Some (trunc h).
Proof.
  intros Ht Hb Hr Hv Hnz Et h Hle.
  unfold HllCount.h_count.
  destruct (h_e_total A ofN ln trunc regs Hr) as [e He]. rewrite He. cbn [obind].
  rewrite Hv. apply N.eqb_neq in Hnz. rewrite Hnz. fold h.
  assert (Hfin : forall es : aT A, obind (h_threshold b)
              (fun thr0 => if aleb A h (ofN thr0) then Some (trunc h) else Some (trunc es)) = Some (trunc h)).
  { intros es. rewrite Et. cbn [obind]. rewrite Hle. reflexivity. }
  destruct (aleb A e (amul A (of_dlit A ofN small_range_factor) (ofN (lenN regs)))).
  - destruct (estimate_bias_total A ofN ln trunc b e Hb) as [bias Ebias].
    { intros row' x _ _. apply Ht. }
    rewrite Ebias. cbn [obind]. apply Hfin.
  - cbn [obind]. apply Hfin.
Qed.
End LinearBranch.

(* thresholds for b >= 9 are at least 400 (Gen/HllData.v) *)
Lemma threshold_ge_9 b : 9 <= b <= 18 -> exists thr, h_threshold b = Some thr /\ 400 <= thr.
Proof.
  intros Hb.
  assert (C : b = 9 \/ b = 10 \/ b = 11 \/ b = 12 \/ b = 13 \/ b = 14 \/ b = 15 \/ b = 16 \/ b = 17 \/ b = 18)
    by lia.
  repeat (destruct C as [-> | C]); try subst b;
    (eexists; split; [vm_compute; reflexivity | lia]).
Qed.

(* ------------------------------------------------------------------ *)
(* 2. the real-number instance                                         *)
(* ------------------------------------------------------------------ *)
Definition RNum : arith :=
  {| aT := R; azero := 0%R; aone := 1%R; ahalf := (/ 2)%R;
     aadd := Rplus; asub := Rminus; amul := Rmult; adiv := Rdiv;
     aleb := fun x y => if Rle_dec x y then true else false;
     altb := fun x y => if Rlt_dec x y then true else false;
     anan := 0%R |}.

Definition RofN (n : N) : R := IZR (Z.of_N n).
(* toward zero; negative -> 0 *)
Definition Rtrunc (x : R) : N := if Rle_dec 0 x then Z.to_N (Int_part x) else 0.

Lemma RNum_leb_total : leb_total RNum.
Proof.
  intros x y. simpl. destruct (Rle_dec x y) as [L|L]; [left; reflexivity|].
  right. destruct (Rle_dec y x) as [L'|L']; [reflexivity|]. exfalso. lra.
Qed.

Lemma RNum_leb_true x y : (x <= y)%R -> aleb RNum x y = true.
Proof. intros H. simpl. destruct (Rle_dec x y); [reflexivity|contradiction]. Qed.

Lemma RofN_nonneg n : (0 <= RofN n)%R.
Proof. unfold RofN. apply IZR_le. lia. Qed.

Lemma Rtrunc_spec x :
  (0 <= x)%R -> (IZR (Z.of_N (Rtrunc x)) <= x < IZR (Z.of_N (Rtrunc x)) + 1)%R.
Proof.
  intros Hx. unfold Rtrunc. destruct (Rle_dec 0 x) as [_|N0]; [|contradiction].
  destruct (base_Int_part x) as [H1 H2].
  assert (Hz : (0 <= Int_part x)%Z).
  { assert (L : (IZR (-1) < IZR (Int_part x))%R) by lra. apply lt_IZR in L. lia. }
  rewrite Z2N.id by exact Hz. lra.
Qed.

Lemma Rtrunc_unique x n :
  (IZR (Z.of_N n) <= x < IZR (Z.of_N n) + 1)%R -> Rtrunc x = n.
Proof.
  intros [H1 H2].
  assert (Hn : (0 <= IZR (Z.of_N n))%R) by (apply IZR_le; lia).
  assert (Hx : (0 <= x)%R) by lra.
  destruct (Rtrunc_spec x Hx) as [T1 T2]. set (t := Rtrunc x) in *.
  assert (L1 : (IZR (Z.of_N t) < IZR (Z.of_N n + 1))%R) by (rewrite plus_IZR; lra).
  assert (L2 : (IZR (Z.of_N n) < IZR (Z.of_N t + 1))%R) by (rewrite plus_IZR; lra).
  apply lt_IZR in L1, L2. lia.
Qed.

Lemma Rtrunc_zero : Rtrunc 0 = 0.
Proof. apply Rtrunc_unique. simpl. lra. Qed.

(* ------------------------------------------------------------------ *)
(* 3. analytic core                                                    *)
(* ------------------------------------------------------------------ *)
Lemma ln_le_minus_1 z : (0 < z)%R -> (ln z <= z - 1)%R.
Proof.
  intros Hz. pose proof (exp_ineq1_le (ln z)) as H. rewrite exp_ln in H by exact Hz. lra.
Qed.

Theorem linear_counting_bracket (m k : R) :
  (512 <= m)%R -> (1 <= k <= 8)%R -> (k <= m * ln (m / (m - k)) < k + 1)%R.
Proof.
  intros Hm [Hk1 Hk8].
  assert (Hd : (0 < m - k)%R) by lra.
  assert (Hm0 : (0 < m)%R) by lra.
  assert (Hz : (0 < m / (m - k))%R) by (apply Rdiv_lt_0_compat; lra).
  split.
  - (* ln (m/(m-k)) = - ln ((m-k)/m) >= 1 - (m-k)/m = k/m *)
    assert (Hinv : (m / (m - k) = / ((m - k) / m))%R) by (field; lra).
    assert (Hw : (0 < (m - k) / m)%R) by (apply Rdiv_lt_0_compat; lra).
    rewrite Hinv, ln_Rinv by exact Hw.
    pose proof (ln_le_minus_1 _ Hw) as L.
    assert (E : ((m - k) / m - 1 = - (k / m))%R) by (field; lra).
    rewrite E in L.
    assert (Hmul : (m * (k / m) <= m * - ln ((m - k) / m))%R)
      by (apply Rmult_le_compat_l; lra).
    replace (m * (k / m))%R with k in Hmul by (field; lra). exact Hmul.
  - (* ln z <= z - 1 = k/(m-k) and m*k/(m-k) < k+1 because k^2 + k <= 72 < m *)
    pose proof (ln_le_minus_1 _ Hz) as L.
    assert (E : (m / (m - k) - 1 = k / (m - k))%R) by (field; lra).
    rewrite E in L.
    assert (Hmul : (m * ln (m / (m - k)) <= m * (k / (m - k)))%R)
      by (apply Rmult_le_compat_l; lra).
    assert (Hlt : (m * (k / (m - k)) < k + 1)%R).
    { replace (m * (k / (m - k)))%R with ((m * k) / (m - k))%R by (field; lra).
      apply (Rmult_lt_reg_r (m - k)); [exact Hd|].
      replace (m * k / (m - k) * (m - k))%R with (m * k)%R by (field; lra).
      nra. }
    lra.
Qed.

(* ------------------------------------------------------------------ *)
(* 4. count() on the reals                                             *)
(* ------------------------------------------------------------------ *)
Theorem count_total_R b regs :
  4 <= b <= 18 -> lenN regs = 2 ^ b -> Forall (fun r => r < 256) regs ->
  exists c, h_count RNum RofN ln Rtrunc b regs = Some c.
Proof. apply count_total. apply RNum_leb_total. Qed.

Theorem count_small_exact_R b regs k :
  9 <= b <= 18 -> lenN regs = 2 ^ b -> Forall (fun r => r < 256) regs ->
  count_nonzeros regs = k -> 1 <= k <= 8 ->
  h_count RNum RofN ln Rtrunc b regs = Some k.
Proof.
  intros Hb Hlen Hr Hnz Hk.
  destruct (threshold_ge_9 b Hb) as (thr & Et & Hthr).
  assert (Hpow : 512 <= 2 ^ b).
  { change 512 with (2 ^ 9). apply N.pow_le_mono_r; lia. }
  pose proof (count_zeros_nonzeros regs) as Hsum. rewrite Hnz, Hlen in Hsum.
  set (v := count_zeros regs) in *.
  assert (Hv : v = 2 ^ b - k) by lia.
  (* the real quantities *)
  assert (HM : (512 <= RofN (2 ^ b))%R). { unfold RofN. apply IZR_le. lia. }
  assert (HK : (1 <= RofN k <= 8)%R). { unfold RofN. split; apply IZR_le; lia. }
  assert (HV : RofN v = (RofN (2 ^ b) - RofN k)%R).
  { unfold RofN. rewrite <- minus_IZR. f_equal. lia. }
  pose proof (linear_counting_bracket _ _ HM HK) as [B1 B2].
  assert (Hh : linear_counting RNum RofN ln (RofN (lenN regs)) v
               = (RofN (2 ^ b) * ln (RofN (2 ^ b) / (RofN (2 ^ b) - RofN k)))%R).
  { unfold linear_counting. rewrite Hlen, HV. reflexivity. }
  assert (Hcount : h_count RNum RofN ln Rtrunc b regs
                   = Some (Rtrunc (linear_counting RNum RofN ln (RofN (lenN regs)) v))).
  { apply (count_linear_gen RNum RofN ln Rtrunc b regs v thr); auto.
    - apply RNum_leb_total.
    - lia.
    - lia.
    - rewrite Hh. apply RNum_leb_true.
      assert (HT : (400 <= RofN thr)%R) by (unfold RofN; apply IZR_le; lia).
      lra. }
  rewrite Hcount, Hh. f_equal. apply Rtrunc_unique. fold (RofN k). lra.
Qed.

Corollary count_empty_R b :
  4 <= b <= 18 -> h_count RNum RofN ln Rtrunc b (repeat 0 (N.to_nat (2 ^ b))) = Some 0.
Proof.
  intros Hb.
  assert (Hm : (RofN (2 ^ b) <> 0)%R).
  { unfold RofN. apply not_0_IZR. assert (2 ^ b <> 0) by (apply N.pow_nonzero; lia). lia. }
  apply (count_empty RNum RofN ln Rtrunc b).
  - apply RNum_leb_total.
  - exact Hb.
  - cbn [adiv RNum]. unfold Rdiv. apply Rinv_r. exact Hm.
  - cbn [aone azero RNum]. apply ln_1.
  - cbn [amul azero RNum]. apply Rmult_0_r.
  - intros n. apply RNum_leb_true. apply RofN_nonneg.
  - apply Rtrunc_zero.
Qed.

(* ---------------- examples: the hypotheses are satisfiable ---------------- *)
Lemma Forall_forallb {X} (f : X -> bool) (P : X -> Prop) l :
  (forall x, f x = true -> P x) -> forallb f l = true -> Forall P l.
Proof.
  intros Hf H. apply Forall_forall. intros x Hx. apply Hf.
  rewrite forallb_forall in H. auto.
Qed.

(* b = 9, m = 512, three registers set *)
Definition ex_regs : list N :=
  repeat 0 5 ++ [3] ++ repeat 0 100 ++ [1; 7] ++ repeat 0 (512 - 108).

Lemma ex_regs_len : lenN ex_regs = 2 ^ 9.
Proof. vm_compute. reflexivity. Qed.
Lemma ex_regs_width : Forall (fun r => r < 256) ex_regs.
Proof.
  apply (Forall_forallb (fun r => r <? 256)); [intros x; apply N.ltb_lt|vm_compute; reflexivity].
Qed.
Lemma ex_regs_nonzeros : count_nonzeros ex_regs = 3.
Proof. vm_compute. reflexivity. Qed.

Example count_small_exact_R_ex : h_count RNum RofN ln Rtrunc 9 ex_regs = Some 3.
Proof.
  apply count_small_exact_R.
  - lia.
  - exact ex_regs_len.
  - exact ex_regs_width.
  - exact ex_regs_nonzeros.
  - lia.
Qed.

(* the largest case: b = 18, eight registers set at the far end *)
Definition ex_regs18 : list N := repeat 0 (2 ^ 18 - 8) ++ [1; 2; 3; 4; 5; 6; 7; 255].
Example count_small_exact_R_ex18 : h_count RNum RofN ln Rtrunc 18 ex_regs18 = Some 8.
Proof.
  apply count_small_exact_R.
  - lia.
  - vm_compute. reflexivity.
  - apply (Forall_forallb (fun r => r <? 256)); [intros x; apply N.ltb_lt|vm_compute; reflexivity].
  - vm_compute. reflexivity.
  - lia.
Qed.

Example count_empty_R_ex : h_count RNum RofN ln Rtrunc 4 (repeat 0 16) = Some 0.
Proof. apply (count_empty_R 4). lia. Qed.

Example linear_counting_bracket_ex : (3 <= 512 * ln (512 / (512 - 3)) < 3 + 1)%R.
Proof. apply linear_counting_bracket; lra. Qed.

Print Assumptions count_zeros_nonzeros.
Print Assumptions count_linear_gen.
Print Assumptions threshold_ge_9.
Print Assumptions RNum_leb_total.
Print Assumptions Rtrunc_spec.
Print Assumptions Rtrunc_unique.
Print Assumptions linear_counting_bracket.
Print Assumptions count_total_R.
Print Assumptions count_small_exact_R.
Print Assumptions count_empty_R.

(* ------------------------------------------------------------------ *)
(* 5. the constant of the standard error  sqrt (3 ln 2 - 1) / sqrt m   *)
(*    (uses [interval]; its extra assumptions concern only this theorem)          *)
