(* Proofs/ReservoirExamples.v - a heavy evaluation kept outside the closure of the Props files: a word for which the
   crate's float gap (20000) differs from the exact real-number gap (19999); the model answers "ambiguous". *)
From PDS Require Import Model.Reservoir.
Open Scope N_scope.
Example ex_gap_witness1 : gap_fix 1 3520 4488217069661734 = Some (19999, true).
Proof. vm_cast_no_check (eq_refl (Some (19999, true))). Qed.
