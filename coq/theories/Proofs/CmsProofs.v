(* Proofs/CmsProofs.v — theorems about the CountMinSketch model (Model/Cms.v).

   All theorems hold for EVERY hash function [H] (including adversarial ones), every shape
   w, d >= 1 (w <> d allowed), every counter bound [mx] and every history of
   add_n / merge / clear.  [crun H h = Some t] means: no step of the history panicked
   (no counter overflow, every merge had equal shapes).

   Route: the table of a successfully run history is exactly the overflow-free reference
   table [tbl_of] of the flattened stream [cstream h] (Theorem [cms_table_spec]); every cell
   of [tbl_of] is a closed-form sum [cellsum]; query_point is the minimum over the d rows of
   those sums (Lemma [cms_query_minfold]); all bounds follow. *)
From PDS Require Import Model.Cms.
From Coq Require Import Permutation ZifyN ZifyBool.

Local Open Scope N_scope.

Arguments N.add : simpl never.
Arguments N.mul : simpl never.
Arguments N.min : simpl never.
Arguments N.modulo : simpl never.
Arguments N.pow : simpl never.
Arguments N.leb : simpl never.
Arguments N.eqb : simpl never.

(* ====================================================================== *)
(** * Histories *)

(* the sketch is created, then any interleaving of add_n, merge with another history's
   sketch, clear *)
Inductive chist :=
| CNew (w d mx : N)
| CAdd (h : chist) (x n : N)
| CMerge (h1 h2 : chist)
| CClear (h : chist).

Fixpoint crun (H : hashfn) (h : chist) : option cms :=
  match h with
  | CNew w d mx => Some (cms_new w d mx)
  | CAdd h x n =>
      match crun H h with
      | Some s => match cms_add_n H s x n with Some (_, s') => Some s' | None => None end
      | None => None
      end
  | CMerge h1 h2 =>
      match crun H h1, crun H h2 with
      | Some a, Some b => cms_merge a b
      | _, _ => None
      end
  | CClear h => match crun H h with Some s => Some (cms_clear s) | None => None end
  end.

(* true total weight added for x since the last clear *)
Fixpoint truew (h : chist) (x : N) : N :=
  match h with
  | CNew _ _ _ => 0
  | CAdd h y n => truew h x + (if x =? y then n else 0)
  | CMerge h1 h2 => truew h1 x + truew h2 x
  | CClear _ => 0
  end.

Fixpoint totalw (h : chist) : N :=
  match h with
  | CNew _ _ _ => 0
  | CAdd h _ n => totalw h + n
  | CMerge h1 h2 => totalw h1 + totalw h2
  | CClear _ => 0
  end.

Fixpoint cfgw (h : chist) : N * N :=
  match h with
  | CNew w d _ => (w, d)
  | CAdd h _ _ => cfgw h
  | CMerge h1 _ => cfgw h1
  | CClear h => cfgw h
  end.

(* flattened stream: the adds since the last clear; merge concatenates both streams *)
Fixpoint cstream (h : chist) : list (N * N) :=
  match h with
  | CNew _ _ _ => []
  | CAdd h x n => cstream h ++ [(x, n)]
  | CMerge h1 h2 => cstream h1 ++ cstream h2
  | CClear _ => []
  end.

(* [h] followed by the adds of [l], one by one *)
Fixpoint cadds (h : chist) (l : list (N * N)) : chist :=
  match l with
  | [] => h
  | xn :: r => cadds (CAdd h (fst xn) (snd xn)) r
  end.

(* ====================================================================== *)
(** * Generic list helpers *)

Lemma nth_repeat0 (m j : nat) : nth j (repeat 0 m) 0 = 0.
Proof. revert j; induction m as [|m IH]; intros [|j]; cbn [repeat nth]; auto. Qed.

Lemma getN_nth (l : list N) c v : getN l c = Some v -> nth (N.to_nat c) l 0 = v.
Proof. unfold getN. apply nth_error_nth. Qed.

Lemma getN_in_range (l : list N) c :
  (N.to_nat c < length l)%nat -> getN l c = Some (nth (N.to_nat c) l 0).
Proof. unfold getN. intros Hc. apply nth_error_nth'. exact Hc. Qed.

Lemma Nseq_NoDup n : forall s, NoDup (Nseq s n).
Proof.
  induction n as [|n IH]; intros s; cbn [Nseq]; constructor.
  - rewrite Nseq_In. lia.
  - apply IH.
Qed.

Lemma NoDup_map_inj_in {A B} (f : A -> B) (l : list A) :
  (forall a b, In a l -> In b l -> f a = f b -> a = b) -> NoDup l -> NoDup (map f l).
Proof.
  intros Hinj Hnd. induction Hnd as [|a l Hnin Hnd IH]; cbn [map]; constructor.
  - intros Hin. apply in_map_iff in Hin. destruct Hin as (b & Hb & Hbin).
    assert (b = a) as -> by (apply Hinj; [right; exact Hbin | left; reflexivity | exact Hb]).
    contradiction.
  - apply IH. intros a' b' Ha' Hb'. apply Hinj; right; assumption.
Qed.

(* ---------- bump: add n at one index ---------- *)
Definition bump (t : list N) (k : nat) (n : N) : list N := upd t k (nth k t 0 + n).
Definition bumps (t : list N) (ks : list nat) (n : N) : list N :=
  fold_left (fun t k => bump t k n) ks t.
Fixpoint cnt (j : nat) (ks : list nat) : N :=
  match ks with
  | [] => 0
  | k :: r => (if Nat.eqb k j then 1 else 0) + cnt j r
  end.

Lemma bump_length t k n : length (bump t k n) = length t.
Proof. apply upd_length. Qed.

Lemma nth_bump t k n j :
  (j < length t)%nat -> nth j (bump t k n) 0 = nth j t 0 + (if Nat.eqb k j then n else 0).
Proof.
  intros Hj. unfold bump. destruct (Nat.eqb_spec k j) as [->|Hne].
  - rewrite nth_upd_same by exact Hj. reflexivity.
  - rewrite nth_upd_other by exact Hne. lia.
Qed.

Lemma bumps_cons t k r n : bumps t (k :: r) n = bumps (bump t k n) r n.
Proof. reflexivity. Qed.

Lemma bumps_length ks : forall t n, length (bumps t ks n) = length t.
Proof.
  induction ks as [|k r IH]; intros t n.
  - reflexivity.
  - rewrite bumps_cons, IH. apply bump_length.
Qed.

Lemma nth_bumps ks : forall t n j,
  (j < length t)%nat -> nth j (bumps t ks n) 0 = nth j t 0 + n * cnt j ks.
Proof.
  induction ks as [|k r IH]; intros t n j Hj.
  - unfold bumps. cbn [fold_left cnt]. lia.
  - rewrite bumps_cons, IH by (rewrite bump_length; exact Hj).
    rewrite nth_bump by exact Hj. cbn [cnt]. destruct (Nat.eqb k j); lia.
Qed.

Lemma cnt_notin j ks : ~ In j ks -> cnt j ks = 0.
Proof.
  induction ks as [|k r IH]; intros Hn; cbn [cnt].
  - reflexivity.
  - destruct (Nat.eqb_spec k j) as [->|Hne].
    + exfalso. apply Hn. left; reflexivity.
    + rewrite IH by (intros Hin; apply Hn; right; exact Hin). reflexivity.
Qed.

Lemma cnt_in j ks : In j ks -> 1 <= cnt j ks.
Proof.
  induction ks as [|k r IH]; intros Hin; cbn [cnt].
  - destruct Hin.
  - destruct Hin as [->|Hin].
    + rewrite Nat.eqb_refl. lia.
    + specialize (IH Hin). destruct (Nat.eqb k j); lia.
Qed.

Lemma cnt_nodup j ks : NoDup ks -> cnt j ks <= 1.
Proof.
  intros Hnd. induction Hnd as [|k r Hnin Hnd IH]; cbn [cnt].
  - lia.
  - destruct (Nat.eqb_spec k j) as [->|Hne].
    + rewrite (cnt_notin _ _ Hnin). lia.
    + lia.
Qed.

(* ---------- pointwise sum ---------- *)
Fixpoint padd (a b : list N) : list N :=
  match a, b with
  | x :: a', y :: b' => (x + y) :: padd a' b'
  | _, _ => []
  end.

Lemma padd_length a : forall b, length (padd a b) = Nat.min (length a) (length b).
Proof.
  induction a as [|x a IH]; intros [|y b]; cbn [padd length Nat.min]; auto.
Qed.

Lemma nth_padd a : forall b j,
  (j < length a)%nat -> (j < length b)%nat -> nth j (padd a b) 0 = nth j a 0 + nth j b 0.
Proof.
  induction a as [|x a IH]; intros [|y b] [|j] Ha Hb; cbn [padd length nth] in *; try lia.
  apply IH; lia.
Qed.

Lemma addl_padd mx a : forall b r, addl mx a b = Some r -> r = padd a b.
Proof.
  induction a as [|x a IH]; intros [|y b] r E; cbn [addl padd] in *;
    try (inversion E; reflexivity).
  unfold checked_add in E. destruct (x + y <=? mx); [|discriminate].
  destruct (addl mx a b) as [r'|] eqn:E2; [|discriminate].
  inversion E; subst. f_equal. apply IH. exact E2.
Qed.

(* ---------- minimum folds ---------- *)
Definition omin (a : option N) (v : N) : N :=
  match a with Some a => N.min a v | None => v end.
Definition minfold (l : list N) (acc : option N) : option N :=
  fold_left (fun a v => Some (omin a v)) l acc.

Lemma minfold_cons v l acc : minfold (v :: l) acc = minfold l (Some (omin acc v)).
Proof. reflexivity. Qed.

Lemma min_cells_minfold tbl cs : forall acc,
  (forall c, In c cs -> (N.to_nat c < length tbl)%nat) ->
  min_cells tbl cs acc = minfold (map (fun c => nth (N.to_nat c) tbl 0) cs) acc.
Proof.
  induction cs as [|c r IH]; intros acc Hin; cbn [min_cells map].
  - reflexivity.
  - rewrite getN_in_range by (apply Hin; left; reflexivity).
    rewrite IH by (intros c' Hc'; apply Hin; right; exact Hc').
    reflexivity.
Qed.

Lemma minfold_lower a l : forall acc q,
  minfold l acc = Some q ->
  (forall v, In v l -> a <= v) -> (forall v, acc = Some v -> a <= v) -> a <= q.
Proof.
  induction l as [|v l IH]; intros acc q E Hl Hacc.
  - apply Hacc. exact E.
  - rewrite minfold_cons in E. apply (IH _ _ E).
    + intros v' Hv'. apply Hl. right; exact Hv'.
    + intros v' Hv'. inversion Hv'; subst. clear Hv'.
      assert (a <= v) by (apply Hl; left; reflexivity).
      destruct acc as [c|]; cbn [omin].
      * specialize (Hacc c eq_refl). lia.
      * exact H.
Qed.

Lemma minfold_upper b l : forall acc q,
  minfold l acc = Some q ->
  (forall v, In v l -> v <= b) -> (forall v, acc = Some v -> v <= b) -> q <= b.
Proof.
  induction l as [|v l IH]; intros acc q E Hl Hacc.
  - apply Hacc. exact E.
  - rewrite minfold_cons in E. apply (IH _ _ E).
    + intros v' Hv'. apply Hl. right; exact Hv'.
    + intros v' Hv'. inversion Hv'; subst. clear Hv'.
      assert (v <= b) by (apply Hl; left; reflexivity).
      destruct acc as [c|]; cbn [omin].
      * lia.
      * exact H.
Qed.

Lemma minfold_some l : forall acc, (l <> [] \/ acc <> None) -> exists q, minfold l acc = Some q.
Proof.
  induction l as [|v l IH]; intros acc Hne.
  - destruct acc as [c|].
    + exists c. reflexivity.
    + destruct Hne as [Hne|Hne]; congruence.
  - rewrite minfold_cons. apply IH. right. discriminate.
Qed.

Lemma minfold_map_add n l : forall acc,
  minfold (map (fun v => v + n) l) (option_map (fun v => v + n) acc)
  = option_map (fun v => v + n) (minfold l acc).
Proof.
  induction l as [|v l IH]; intros acc; cbn [map].
  - reflexivity.
  - rewrite !minfold_cons. rewrite <- IH. f_equal.
    destruct acc as [c|]; cbn [option_map omin]; f_equal. lia.
Qed.

(* ---------- stream weights ---------- *)
Fixpoint sw (l : list (N * N)) (x : N) : N :=
  match l with
  | [] => 0
  | yn :: r => (if x =? fst yn then snd yn else 0) + sw r x
  end.
Fixpoint st (l : list (N * N)) : N :=
  match l with
  | [] => 0
  | yn :: r => snd yn + st r
  end.

Lemma sw_app l1 l2 x : sw (l1 ++ l2) x = sw l1 x + sw l2 x.
Proof. induction l1 as [|yn r IH]; cbn [app sw]; lia. Qed.

Lemma st_app l1 l2 : st (l1 ++ l2) = st l1 + st l2.
Proof. induction l1 as [|yn r IH]; cbn [app st]; lia. Qed.

Lemma truew_stream h x : truew h x = sw (cstream h) x.
Proof.
  induction h as [w d mx|h IH y n|h1 IH1 h2 IH2|h IH]; cbn [truew cstream]; rewrite ?sw_app;
    cbn [sw fst snd]; lia.
Qed.

Lemma totalw_stream h : totalw h = st (cstream h).
Proof.
  induction h as [w d mx|h IH y n|h1 IH1 h2 IH2|h IH]; cbn [totalw cstream]; rewrite ?st_app;
    cbn [st fst snd]; lia.
Qed.

Lemma sw_le_st l x : sw l x <= st l.
Proof.
  induction l as [|yn r IH]; cbn [sw st]; [lia|]. destruct (x =? fst yn); lia.
Qed.

Lemma st_single l x : (forall y, y <> x -> sw l y = 0) -> st l = sw l x.
Proof.
  induction l as [|[y n] r IH]; intros Hz; cbn [sw st fst snd].
  - reflexivity.
  - assert (Hr : forall y', y' <> x -> sw r y' = 0).
    { intros y' Hy'. specialize (Hz y' Hy'). cbn [sw fst snd] in Hz. lia. }
    rewrite (IH Hr). destruct (N.eqb_spec x y) as [->|Hne].
    + reflexivity.
    + assert (Hy : y <> x) by congruence. specialize (Hz y Hy). cbn [sw fst snd] in Hz.
      rewrite N.eqb_refl in Hz. lia.
Qed.

Lemma st_zero l : (forall x, sw l x = 0) -> st l = 0.
Proof.
  induction l as [|[y n] r IH]; intros Hz; cbn [st fst snd].
  - reflexivity.
  - assert (Hr : forall x, sw r x = 0).
    { intros x. specialize (Hz x). cbn [sw fst snd] in Hz. lia. }
    rewrite (IH Hr). specialize (Hz y). cbn [sw fst snd] in Hz. rewrite N.eqb_refl in Hz. lia.
Qed.

(* ====================================================================== *)
(** * The overflow-free reference table *)

Lemma pos_lt H m x i : 1 <= m -> pos H m x i < m.
Proof. intros Hm. unfold pos. apply N.mod_lt. lia. Qed.

Section Ref.
Variable H : hashfn.
Variables w d : N.

(* index (as nat) of the cell of key x in row i *)
Definition cellk (x i : N) : nat := N.to_nat (i * w + pos H w x i).
(* the d cells touched by key x *)
Definition cells (x : N) : list nat := map (cellk x) (Nseq 0 (N.to_nat d)).
(* add n at index i*w + pos H w x i for each row i < d *)
Definition tbl_add (t : list N) (x n : N) : list N := bumps t (cells x) n.
Definition tbl_of (l : list (N * N)) : list N :=
  fold_left (fun t xn => tbl_add t (fst xn) (snd xn)) l (repeat 0 (N.to_nat (w * d))).

(* closed form of one cell of [tbl_of] *)
Definition hits (x : N) (j : nat) : N := cnt j (cells x).
Fixpoint cellsum (l : list (N * N)) (j : nat) : N :=
  match l with
  | [] => 0
  | xn :: r => snd xn * hits (fst xn) j + cellsum r j
  end.

Lemma fold_tbl_length l : forall t,
  length (fold_left (fun t xn => tbl_add t (fst xn) (snd xn)) l t) = length t.
Proof.
  induction l as [|xn r IH]; intros t; cbn [fold_left].
  - reflexivity.
  - rewrite IH. apply bumps_length.
Qed.

Lemma fold_tbl_nth l : forall t j, (j < length t)%nat ->
  nth j (fold_left (fun t xn => tbl_add t (fst xn) (snd xn)) l t) 0 = nth j t 0 + cellsum l j.
Proof.
  induction l as [|xn r IH]; intros t j Hj; cbn [fold_left cellsum].
  - lia.
  - rewrite IH by (unfold tbl_add; rewrite bumps_length; exact Hj).
    unfold tbl_add. rewrite nth_bumps by exact Hj. unfold hits. lia.
Qed.

Lemma tbl_of_length l : length (tbl_of l) = N.to_nat (w * d).
Proof. unfold tbl_of. rewrite fold_tbl_length. apply repeat_length. Qed.

Lemma tbl_of_nth l j : (j < N.to_nat (w * d))%nat -> nth j (tbl_of l) 0 = cellsum l j.
Proof.
  intros Hj. unfold tbl_of. rewrite fold_tbl_nth by (rewrite repeat_length; exact Hj).
  rewrite nth_repeat0. lia.
Qed.

Lemma tbl_of_nil : tbl_of [] = repeat 0 (N.to_nat (w * d)).
Proof. reflexivity. Qed.

Lemma tbl_of_snoc l x n : tbl_of (l ++ [(x, n)]) = tbl_add (tbl_of l) x n.
Proof. unfold tbl_of. rewrite fold_left_app. reflexivity. Qed.

Lemma cellsum_app l1 l2 j : cellsum (l1 ++ l2) j = cellsum l1 j + cellsum l2 j.
Proof. induction l1 as [|xn r IH]; cbn [app cellsum]; lia. Qed.

Lemma cellsum_perm l l' j : Permutation l l' -> cellsum l j = cellsum l' j.
Proof. intros Hp. induction Hp; cbn [cellsum]; lia. Qed.

(* the reference table does not depend on the order of the stream ... *)
Theorem tbl_of_perm l l' : Permutation l l' -> tbl_of l = tbl_of l'.
Proof.
  intros Hp. apply (nth_ext _ _ 0 0).
  - rewrite !tbl_of_length. reflexivity.
  - intros j Hj. rewrite tbl_of_length in Hj. rewrite !tbl_of_nth by exact Hj.
    apply cellsum_perm. exact Hp.
Qed.

(* ... and is additive over concatenation *)
Theorem tbl_of_app l1 l2 : tbl_of (l1 ++ l2) = padd (tbl_of l1) (tbl_of l2).
Proof.
  apply (nth_ext _ _ 0 0).
  - rewrite padd_length, !tbl_of_length. lia.
  - intros j Hj. rewrite tbl_of_length in Hj.
    rewrite nth_padd by (rewrite tbl_of_length; exact Hj).
    rewrite !tbl_of_nth by exact Hj. apply cellsum_app.
Qed.

(* ---------- geometry of the cells (needs w >= 1) ---------- *)
Lemma cellk_lt x i : 1 <= w -> i < d -> (cellk x i < N.to_nat (w * d))%nat.
Proof.
  intros Hw Hi. pose proof (pos_lt H w x i Hw) as Hp. unfold cellk.
  assert (i * w + pos H w x i < w * d) by nia. lia.
Qed.

(* rows are disjoint index ranges: equal cells (even of different keys) lie in the same row *)
Lemma cellk_row x y i i' : 1 <= w -> cellk x i = cellk y i' -> i = i'.
Proof.
  intros Hw E. pose proof (pos_lt H w x i Hw) as Hp. pose proof (pos_lt H w y i' Hw) as Hp'.
  unfold cellk in E. apply N2Nat.inj in E. nia.
Qed.

Lemma cells_NoDup x : 1 <= w -> NoDup (cells x).
Proof.
  intros Hw. unfold cells. apply NoDup_map_inj_in.
  - intros a b _ _ E. apply (cellk_row x x a b Hw E).
  - apply Nseq_NoDup.
Qed.

Lemma cellk_in_cells x i : i < d -> In (cellk x i) (cells x).
Proof. intros Hi. unfold cells. apply in_map. rewrite Nseq_In. lia. Qed.

Lemma hits_le_1 x j : 1 <= w -> hits x j <= 1.
Proof. intros Hw. unfold hits. apply cnt_nodup. apply cells_NoDup. exact Hw. Qed.

Lemma hits_ge_1 x i : i < d -> 1 <= hits x (cellk x i).
Proof. intros Hi. unfold hits. apply cnt_in. apply cellk_in_cells. exact Hi. Qed.

Lemma hits_own x i : 1 <= w -> i < d -> hits x (cellk x i) = 1.
Proof. intros Hw Hi. pose proof (hits_le_1 x (cellk x i) Hw). pose proof (hits_ge_1 x i Hi). lia. Qed.

(* (R1) the cell of x in every row holds at least the true weight of x *)
Lemma cellsum_lower l x i : i < d -> sw l x <= cellsum l (cellk x i).
Proof.
  intros Hi. induction l as [|[y n] r IH]; cbn [sw cellsum fst snd].
  - lia.
  - destruct (N.eqb_spec x y) as [->|Hne].
    + pose proof (hits_ge_1 y i Hi). nia.
    + lia.
Qed.

(* (R2, consequence) no cell exceeds the total weight *)
Lemma cellsum_upper l j : 1 <= w -> cellsum l j <= st l.
Proof.
  intros Hw. induction l as [|[y n] r IH]; cbn [st cellsum fst snd].
  - lia.
  - pose proof (hits_le_1 y j Hw). nia.
Qed.
End Ref.

(* ====================================================================== *)
(** * The model computes the reference table *)

Lemma cms_add_n_inv H s x n r s' :
  cms_add_n H s x n = Some (r, s') ->
  cw s <> 0 /\
  exists res tbl',
    add_rows H s x n (Nseq 0 (N.to_nat (cd s))) (ctbl s) 0 = Some (res, tbl') /\
    r = res + n /\
    s' = {| cw := cw s; cd := cd s; cmax := cmax s; ctbl := tbl' |}.
Proof.
  unfold cms_add_n. intros E. destruct (N.eqb_spec (cw s) 0) as [|Hw]; [discriminate|].
  split; [exact Hw|].
  destruct (add_rows H s x n (Nseq 0 (N.to_nat (cd s))) (ctbl s) 0) as [[res tbl']|]; [|discriminate].
  unfold checked_add in E. destruct (res + n <=? cmax s); [|discriminate].
  inversion E; subst. exists res, tbl'. auto.
Qed.

Lemma cms_merge_inv a b t :
  cms_merge a b = Some t ->
  cd a = cd b /\ cw a = cw b /\
  exists r, addl (cmax a) (ctbl a) (ctbl b) = Some r /\
            t = {| cw := cw a; cd := cd a; cmax := cmax a; ctbl := r |}.
Proof.
  unfold cms_merge. intros E.
  destruct (N.eqb_spec (cd a) (cd b)) as [Hd|]; [|discriminate].
  destruct (N.eqb_spec (cw a) (cw b)) as [Hw|]; [|discriminate].
  cbn [andb] in E. destruct (addl (cmax a) (ctbl a) (ctbl b)) as [r|]; [|discriminate].
  inversion E; subst. split; [exact Hd|]. split; [exact Hw|]. exists r. auto.
Qed.

Lemma add_rows_tbl H s x n rows : forall tbl res res' tbl',
  add_rows H s x n rows tbl res = Some (res', tbl') ->
  tbl' = bumps tbl (map (cellk H (cw s) x) rows) n.
Proof.
  induction rows as [|i r IH]; intros tbl res res' tbl' E; cbn [add_rows] in E.
  - inversion E; reflexivity.
  - destruct (getN tbl (cell H s x i)) as [cur|] eqn:Eg; [|discriminate].
    unfold checked_add in E. destruct (cur + n <=? cmax s); [|discriminate].
    apply IH in E. rewrite E. cbn [map]. rewrite bumps_cons. f_equal.
    apply getN_nth in Eg.
    change (N.to_nat (cell H s x i)) with (cellk H (cw s) x i) in *.
    unfold bump. rewrite Eg. reflexivity.
Qed.

Lemma cms_table_spec_aux H h : forall t, crun H h = Some t ->
  ctbl t = tbl_of H (fst (cfgw h)) (snd (cfgw h)) (cstream h)
  /\ cw t = fst (cfgw h) /\ cd t = snd (cfgw h).
Proof.
  induction h as [w d mx|h IH x n|h1 IH1 h2 IH2|h IH]; intros t Hr; cbn [crun cfgw cstream] in *.
  - inversion Hr; subst. cbn [cms_new ctbl cw cd fst snd]. auto.
  - destruct (crun H h) as [s|]; [|discriminate].
    destruct (cms_add_n H s x n) as [[r s']|] eqn:Ea; [|discriminate].
    inversion Hr; subst. clear Hr.
    destruct (IH s eq_refl) as (Ht & Hw & Hd).
    apply cms_add_n_inv in Ea. destruct Ea as (_ & res & tbl' & Ea & _ & ->).
    cbn [ctbl cw cd]. split; [|auto].
    apply add_rows_tbl in Ea. rewrite Ea, Ht, Hw, Hd, tbl_of_snoc. reflexivity.
  - destruct (crun H h1) as [a|]; [|discriminate].
    destruct (crun H h2) as [b|]; [|discriminate].
    destruct (IH1 a eq_refl) as (Ha & Hwa & Hda).
    destruct (IH2 b eq_refl) as (Hb & Hwb & Hdb).
    apply cms_merge_inv in Hr. destruct Hr as (Hd & Hw & r & Hr & ->).
    cbn [ctbl cw cd]. split; [|auto].
    apply addl_padd in Hr. rewrite Hr, Ha, Hb, <- Hwb, <- Hdb, <- Hw, <- Hd, Hwa, Hda.
    symmetry. apply tbl_of_app.
  - destruct (crun H h) as [s|]; [|discriminate].
    inversion Hr; subst. clear Hr.
    destruct (IH s eq_refl) as (Ht & Hw & Hd).
    cbn [cms_clear ctbl cw cd]. rewrite Hw, Hd. auto.
Qed.

(* Item 6, state-level characterisation.  (Holds even without 1 <= w, 1 <= d.) *)
Theorem cms_table_spec H h t w d :
  cfgw h = (w, d) -> crun H h = Some t ->
  ctbl t = tbl_of H w d (cstream h) /\ cw t = w /\ cd t = d.
Proof.
  intros Hc Hr. pose proof (cms_table_spec_aux H h t Hr) as Hs. rewrite Hc in Hs. exact Hs.
Qed.

Lemma crun_merge_cfg H h1 h2 t : crun H (CMerge h1 h2) = Some t -> cfgw h1 = cfgw h2.
Proof.
  cbn [crun]. intros Hr.
  destruct (crun H h1) as [a|] eqn:E1; [|discriminate].
  destruct (crun H h2) as [b|] eqn:E2; [|discriminate].
  destruct (cms_table_spec_aux H h1 a E1) as (_ & Hwa & Hda).
  destruct (cms_table_spec_aux H h2 b E2) as (_ & Hwb & Hdb).
  apply cms_merge_inv in Hr. destruct Hr as (Hd & Hw & _).
  rewrite (surjective_pairing (cfgw h1)), (surjective_pairing (cfgw h2)). congruence.
Qed.

Lemma cstream_cadds l : forall h, cstream (cadds h l) = cstream h ++ l.
Proof.
  induction l as [|[x n] r IH]; intros h; cbn [cadds fst snd].
  - rewrite app_nil_r. reflexivity.
  - rewrite IH. cbn [cstream]. rewrite <- app_assoc. reflexivity.
Qed.

Lemma cfgw_cadds l : forall h, cfgw (cadds h l) = cfgw h.
Proof.
  induction l as [|[x n] r IH]; intros h; cbn [cadds fst snd].
  - reflexivity.
  - rewrite IH. reflexivity.
Qed.

(* merge is commutative on the table (cmax is inherited from the left operand, so only
   table and shape are compared) *)
Theorem cms_merge_comm H h1 h2 t t' :
  crun H (CMerge h1 h2) = Some t -> crun H (CMerge h2 h1) = Some t' ->
  ctbl t = ctbl t' /\ cw t = cw t' /\ cd t = cd t'.
Proof.
  intros Hr Hr'. pose proof (crun_merge_cfg H h1 h2 t Hr) as Hc.
  destruct (cms_table_spec_aux H _ _ Hr) as (Ht & Hw & Hd).
  destruct (cms_table_spec_aux H _ _ Hr') as (Ht' & Hw' & Hd').
  cbn [cfgw cstream] in *. rewrite Ht, Ht', Hw, Hw', Hd, Hd', Hc.
  split; [|auto]. apply tbl_of_perm. apply Permutation_app_comm.
Qed.

Theorem cms_merge_assoc H h1 h2 h3 t t' :
  crun H (CMerge (CMerge h1 h2) h3) = Some t -> crun H (CMerge h1 (CMerge h2 h3)) = Some t' ->
  ctbl t = ctbl t' /\ cw t = cw t' /\ cd t = cd t'.
Proof.
  intros Hr Hr'.
  destruct (cms_table_spec_aux H _ _ Hr) as (Ht & Hw & Hd).
  destruct (cms_table_spec_aux H _ _ Hr') as (Ht' & Hw' & Hd').
  cbn [cfgw cstream] in *. rewrite Ht, Ht', Hw, Hw', Hd, Hd', app_assoc. auto.
Qed.

(* "After this operation self will be in the same state as when it would have seen all
   elements from self and other" *)
Theorem cms_merge_equals_both_streams H h1 h2 t t' :
  crun H (CMerge h1 h2) = Some t -> crun H (cadds h1 (cstream h2)) = Some t' ->
  ctbl t = ctbl t' /\ cw t = cw t' /\ cd t = cd t'.
Proof.
  intros Hr Hr'.
  destruct (cms_table_spec_aux H _ _ Hr) as (Ht & Hw & Hd).
  destruct (cms_table_spec_aux H _ _ Hr') as (Ht' & Hw' & Hd').
  rewrite cfgw_cadds in Ht', Hw', Hd'. rewrite cstream_cadds in Ht'.
  cbn [cfgw cstream] in *. rewrite Ht, Ht', Hw, Hw', Hd, Hd'. auto.
Qed.

(* ====================================================================== *)
(** * query_point *)

(* closed form: the query is the minimum, over the d rows, of the reference cell sums *)
Lemma cms_query_minfold H h t x w d :
  cfgw h = (w, d) -> crun H h = Some t -> 1 <= w -> 1 <= d ->
  cms_query H t x = minfold (map (cellsum H w d (cstream h)) (cells H w d x)) None.
Proof.
  intros Hc Hr Hw1 Hd1. destruct (cms_table_spec H h t w d Hc Hr) as (Ht & Hw & Hd).
  unfold cms_query. rewrite Hw, Hd.
  destruct (N.eqb_spec w 0) as [|_]; [lia|]. destruct (N.eqb_spec d 0) as [|_]; [lia|].
  rewrite min_cells_minfold.
  - rewrite map_map. unfold cells. rewrite map_map. f_equal. apply map_ext_in.
    intros i Hi. rewrite Nseq_In in Hi. unfold cell. rewrite Hw, Ht.
    change (N.to_nat (i * w + pos H w x i)) with (cellk H w x i).
    apply tbl_of_nth. apply cellk_lt; lia.
  - intros c Hcin. apply in_map_iff in Hcin. destruct Hcin as (i & <- & Hi).
    rewrite Nseq_In in Hi. unfold cell. rewrite Hw, Ht, tbl_of_length.
    change (N.to_nat (i * w + pos H w x i)) with (cellk H w x i).
    apply cellk_lt; lia.
Qed.

Lemma cells_nonempty H w d x : 1 <= d -> cells H w d x <> [].
Proof.
  intros Hd1. unfold cells. destruct (N.to_nat d) as [|m] eqn:Em; [lia|].
  cbn [Nseq map]. discriminate.
Qed.

Lemma in_cells_inv H w d x k : In k (cells H w d x) -> exists i, i < d /\ k = cellk H w x i.
Proof.
  unfold cells. intros Hin. apply in_map_iff in Hin. destruct Hin as (i & <- & Hi).
  rewrite Nseq_In in Hi. exists i. split; [lia|reflexivity].
Qed.

(* 1. query_point never panics / indexes out of range *)
Theorem cms_query_total H h t x w d :
  cfgw h = (w, d) -> crun H h = Some t -> 1 <= w -> 1 <= d ->
  exists q, cms_query H t x = Some q.
Proof.
  intros Hc Hr Hw1 Hd1. rewrite (cms_query_minfold H h t x w d Hc Hr Hw1 Hd1).
  apply minfold_some. left. intros E. apply map_eq_nil in E.
  revert E. apply cells_nonempty. exact Hd1.
Qed.

(* 2. never under-estimates *)
Theorem cms_lower H h t x q w d :
  cfgw h = (w, d) -> crun H h = Some t -> 1 <= w -> 1 <= d ->
  cms_query H t x = Some q -> truew h x <= q.
Proof.
  intros Hc Hr Hw1 Hd1 Hq. rewrite (cms_query_minfold H h t x w d Hc Hr Hw1 Hd1) in Hq.
  apply (minfold_lower _ _ _ _ Hq).
  - intros v Hv. apply in_map_iff in Hv. destruct Hv as (k & <- & Hk).
    apply in_cells_inv in Hk. destruct Hk as (i & Hi & ->).
    rewrite truew_stream. apply cellsum_lower. exact Hi.
  - intros v Hv. discriminate.
Qed.

(* 3. never exceeds the total weight of the stream *)
Theorem cms_upper H h t x q w d :
  cfgw h = (w, d) -> crun H h = Some t -> 1 <= w -> 1 <= d ->
  cms_query H t x = Some q -> q <= totalw h.
Proof.
  intros Hc Hr Hw1 Hd1 Hq. rewrite (cms_query_minfold H h t x w d Hc Hr Hw1 Hd1) in Hq.
  apply (minfold_upper _ _ _ _ Hq).
  - intros v Hv. apply in_map_iff in Hv. destruct Hv as (k & <- & Hk).
    rewrite totalw_stream. apply cellsum_upper. exact Hw1.
  - intros v Hv. discriminate.
Qed.

(* 5. a stream with a single distinct key is counted exactly *)
Theorem cms_single_exact H h t x w d :
  cfgw h = (w, d) -> crun H h = Some t -> 1 <= w -> 1 <= d ->
  (forall y, y <> x -> truew h y = 0) ->
  cms_query H t x = Some (truew h x).
Proof.
  intros Hc Hr Hw1 Hd1 Hz.
  destruct (cms_query_total H h t x w d Hc Hr Hw1 Hd1) as (q & Hq).
  pose proof (cms_lower H h t x q w d Hc Hr Hw1 Hd1 Hq) as Hlo.
  pose proof (cms_upper H h t x q w d Hc Hr Hw1 Hd1 Hq) as Hhi.
  assert (Ht : totalw h = truew h x).
  { rewrite totalw_stream, truew_stream. apply st_single.
    intros y Hy. rewrite <- truew_stream. apply Hz. exact Hy. }
  rewrite Hq. f_equal. lia.
Qed.

(* ---------- 4. add_n returns the post-add query ---------- *)

(* relation between the running minimum of add_rows and min_cells on the ORIGINAL table *)
Lemma add_rows_min_cells H s x n T rows : forall tbl res res' tbl',
  (forall i, In i rows -> i <> 0) ->
  NoDup (map (cell H s x) rows) ->
  (forall i, In i rows -> getN tbl (cell H s x i) = getN T (cell H s x i)) ->
  add_rows H s x n rows tbl res = Some (res', tbl') ->
  min_cells T (map (cell H s x) rows) (Some res) = Some res'.
Proof.
  induction rows as [|i r IH]; intros tbl res res' tbl' Hnz Hnd Hag E;
    cbn [add_rows map min_cells] in *.
  - inversion E; reflexivity.
  - destruct (getN tbl (cell H s x i)) as [cur|] eqn:Eg; [|discriminate].
    rewrite <- (Hag i (or_introl eq_refl)), Eg.
    unfold checked_add in E. destruct (cur + n <=? cmax s); [|discriminate].
    destruct (N.eqb_spec i 0) as [Hi0|_]; [exfalso; exact (Hnz i (or_introl eq_refl) Hi0)|].
    inversion Hnd as [|c l Hnin Hnd']; subst.
    apply (IH _ _ _ _ (fun j Hj => Hnz j (or_intror Hj)) Hnd') in E; [exact E|].
    intros j Hj. rewrite <- (Hag j (or_intror Hj)). unfold getN.
    apply nth_error_upd_other. intros Heq. apply N2Nat.inj in Heq.
    apply Hnin. rewrite Heq. apply in_map. exact Hj.
Qed.

Lemma cell_row H s x i i' : 1 <= cw s -> cell H s x i = cell H s x i' -> i = i'.
Proof.
  intros Hw E. apply (cellk_row H (cw s) x x i i' Hw). unfold cellk.
  unfold cell in E. rewrite E. reflexivity.
Qed.

(* state-level: the value returned by add_n is (query before the add) + n *)
Lemma cms_add_n_res H s x n r s' :
  1 <= cw s -> 1 <= cd s ->
  cms_add_n H s x n = Some (r, s') ->
  exists q, cms_query H s x = Some q /\ r = q + n.
Proof.
  intros Hw1 Hd1 Ea. apply cms_add_n_inv in Ea. destruct Ea as (_ & res & tbl' & Ea & -> & _).
  exists res. split; [|reflexivity]. unfold cms_query.
  destruct (N.eqb_spec (cw s) 0) as [|_]; [lia|]. destruct (N.eqb_spec (cd s) 0) as [|_]; [lia|].
  destruct (N.to_nat (cd s)) as [|m] eqn:Em; [lia|].
  cbn [Nseq add_rows map min_cells] in *.
  destruct (getN (ctbl s) (cell H s x 0)) as [cur|] eqn:Eg; [|discriminate].
  unfold checked_add in Ea. destruct (cur + n <=? cmax s); [|discriminate].
  rewrite N.eqb_refl in Ea.
  assert (Hnd : NoDup (map (cell H s x) (0 :: Nseq (0 + 1) m))).
  { apply NoDup_map_inj_in.
    - intros a b _ _ E. apply (cell_row H s x a b Hw1 E).
    - apply (Nseq_NoDup (S m) 0). }
  cbn [map] in Hnd. inversion Hnd as [|c l Hnin Hnd']; subst.
  apply (add_rows_min_cells H s x n (ctbl s) _ _ _ _ _) in Ea; [exact Ea| |exact Hnd'|].
  - intros i Hi. rewrite Nseq_In in Hi. lia.
  - intros i Hi. unfold getN. apply nth_error_upd_other.
    intros Heq. apply N2Nat.inj in Heq. apply Hnin. rewrite Heq. apply in_map. exact Hi.
Qed.

(* history-level: the query after an add is (query before the add) + n *)
Lemma cms_query_after_add H h t t' x n r w d :
  cfgw h = (w, d) -> crun H h = Some t -> 1 <= w -> 1 <= d ->
  cms_add_n H t x n = Some (r, t') ->
  cms_query H t' x = option_map (fun v => v + n) (cms_query H t x).
Proof.
  intros Hc Hr Hw1 Hd1 Ea.
  assert (Hr' : crun H (CAdd h x n) = Some t') by (cbn [crun]; rewrite Hr, Ea; reflexivity).
  rewrite (cms_query_minfold H h t x w d Hc Hr Hw1 Hd1).
  rewrite (cms_query_minfold H (CAdd h x n) t' x w d Hc Hr' Hw1 Hd1).
  change (@None N) with (option_map (fun v => v + n) None) at 1.
  rewrite <- minfold_map_add. rewrite map_map. f_equal. apply map_ext_in.
  intros k Hk. apply in_cells_inv in Hk. destruct Hk as (i & Hi & ->).
  cbn [cstream]. rewrite cellsum_app. cbn [cellsum fst snd].
  rewrite hits_own by assumption. lia.
Qed.

Theorem cms_add_returns_query H h t t' x n r w d :
  cfgw h = (w, d) -> crun H h = Some t -> 1 <= w -> 1 <= d ->
  cms_add_n H t x n = Some (r, t') ->
  cms_query H t' x = Some r.
Proof.
  intros Hc Hr Hw1 Hd1 Ea.
  rewrite (cms_query_after_add H h t t' x n r w d Hc Hr Hw1 Hd1 Ea).
  destruct (cms_table_spec H h t w d Hc Hr) as (_ & Hw & Hd).
  destruct (cms_add_n_res H t x n r t') as (q & Hq & ->); [lia|lia|exact Ea|].
  rewrite Hq. reflexivity.
Qed.

(* ====================================================================== *)
(** * clear / is_empty *)

(* 7a. clear restores the freshly constructed state *)
Theorem cms_clear_init H h t w d :
  cfgw h = (w, d) -> crun H h = Some t -> cms_clear t = cms_new w d (cmax t).
Proof.
  intros Hc Hr. destruct (cms_table_spec H h t w d Hc Hr) as (_ & Hw & Hd).
  unfold cms_clear, cms_new. rewrite Hw, Hd. reflexivity.
Qed.

(* 7b. is_empty <-> nothing (of non-zero weight) was added since the last clear *)
Theorem cms_is_empty_iff H h t w d :
  cfgw h = (w, d) -> crun H h = Some t -> 1 <= w -> 1 <= d ->
  (cms_is_empty t = true <-> totalw h = 0).
Proof.
  intros Hc Hr Hw1 Hd1. destruct (cms_table_spec H h t w d Hc Hr) as (Ht & Hw & Hd).
  unfold cms_is_empty. rewrite forallb_forall, Ht. split.
  - intros Hall. rewrite totalw_stream. apply st_zero. intros x.
    pose proof (cellsum_lower H w d (cstream h) x 0 ltac:(lia)) as Hlo.
    assert (Hk : (cellk H w x 0 < N.to_nat (w * d))%nat) by (apply cellk_lt; lia).
    rewrite <- (tbl_of_nth H w d _ _ Hk) in Hlo.
    assert (Hin : In (nth (cellk H w x 0) (tbl_of H w d (cstream h)) 0) (tbl_of H w d (cstream h))).
    { apply nth_In. rewrite tbl_of_length. exact Hk. }
    apply Hall in Hin. apply N.eqb_eq in Hin. lia.
  - intros Hz v Hv. apply (In_nth _ _ 0) in Hv. destruct Hv as (j & Hj & <-).
    rewrite tbl_of_length in Hj. rewrite tbl_of_nth by exact Hj.
    pose proof (cellsum_upper H w d (cstream h) j Hw1) as Hup.
    rewrite <- totalw_stream, Hz in Hup. apply N.eqb_eq. lia.
Qed.

(* ====================================================================== *)
(** * The same statements with the shape read off [cfgw h] directly *)

Lemma cfgw_eta h : cfgw h = (fst (cfgw h), snd (cfgw h)).
Proof. apply surjective_pairing. Qed.

Corollary cms_query_total_cfg H h t x :
  crun H h = Some t -> 1 <= fst (cfgw h) -> 1 <= snd (cfgw h) ->
  exists q, cms_query H t x = Some q.
Proof. intros Hr Hw1 Hd1. exact (cms_query_total H h t x _ _ (cfgw_eta h) Hr Hw1 Hd1). Qed.

Corollary cms_lower_cfg H h t x q :
  crun H h = Some t -> 1 <= fst (cfgw h) -> 1 <= snd (cfgw h) ->
  cms_query H t x = Some q -> truew h x <= q.
Proof. intros Hr Hw1 Hd1. exact (cms_lower H h t x q _ _ (cfgw_eta h) Hr Hw1 Hd1). Qed.

Corollary cms_upper_cfg H h t x q :
  crun H h = Some t -> 1 <= fst (cfgw h) -> 1 <= snd (cfgw h) ->
  cms_query H t x = Some q -> q <= totalw h.
Proof. intros Hr Hw1 Hd1. exact (cms_upper H h t x q _ _ (cfgw_eta h) Hr Hw1 Hd1). Qed.

Corollary cms_add_returns_query_cfg H h t x n r t' :
  crun H h = Some t -> 1 <= fst (cfgw h) -> 1 <= snd (cfgw h) ->
  cms_add_n H t x n = Some (r, t') -> cms_query H t' x = Some r.
Proof.
  intros Hr Hw1 Hd1. exact (cms_add_returns_query H h t t' x n r _ _ (cfgw_eta h) Hr Hw1 Hd1).
Qed.

Corollary cms_single_exact_cfg H h t x :
  crun H h = Some t -> 1 <= fst (cfgw h) -> 1 <= snd (cfgw h) ->
  (forall y, y <> x -> truew h y = 0) -> cms_query H t x = Some (truew h x).
Proof. intros Hr Hw1 Hd1. exact (cms_single_exact H h t x _ _ (cfgw_eta h) Hr Hw1 Hd1). Qed.

Corollary cms_clear_init_cfg H h t :
  crun H h = Some t -> cms_clear t = cms_new (fst (cfgw h)) (snd (cfgw h)) (cmax t).
Proof. intros Hr. exact (cms_clear_init H h t _ _ (cfgw_eta h) Hr). Qed.

Corollary cms_is_empty_iff_cfg H h t :
  crun H h = Some t -> 1 <= fst (cfgw h) -> 1 <= snd (cfgw h) ->
  (cms_is_empty t = true <-> totalw h = 0).
Proof. intros Hr Hw1 Hd1. exact (cms_is_empty_iff H h t _ _ (cfgw_eta h) Hr Hw1 Hd1). Qed.

(* ====================================================================== *)
(** * Non-vacuity: concrete adversarial-ish hash, w = 3 <> d = 2, colliding keys *)

Definition Hex : hashfn :=
  fun iv v => match v with
              | Some v => v * 7 + (match iv with Some i => i | None => 0 end)
              | None => 3
              end.

(* keys 1 and 4 collide in both rows; key 2 collides with neither *)
Definition hex : chist := CAdd (CAdd (CAdd (CNew 3 2 255) 1 5) 4 2) 2 3.
Definition tex : cms := {| cw := 3; cd := 2; cmax := 255; ctbl := [0; 7; 3; 7; 0; 3] |}.

Example hex_runs : crun Hex hex = Some tex /\ cfgw hex = (3, 2).
Proof. vm_compute. auto. Qed.

(* both bounds are strict for key 1: truew = 5 < query = 7 < totalw = 10 *)
Example hex_bounds_strict :
  cms_query Hex tex 1 = Some 7 /\ truew hex 1 = 5 /\ totalw hex = 10.
Proof. vm_compute. auto. Qed.

(* key 2 is exact although the stream contains other keys *)
Example hex_key2 : cms_query Hex tex 2 = Some 3 /\ truew hex 2 = 3.
Proof. vm_compute. auto. Qed.

(* add_n returns the post-add query (hypotheses of [cms_add_returns_query] are satisfiable) *)
Example hex_add_returns :
  exists t', cms_add_n Hex tex 4 10 = Some (17, t') /\ cms_query Hex t' 4 = Some 17.
Proof. eexists. vm_compute. split; reflexivity. Qed.

(* single-key stream: exact *)
Definition hex1 : chist := CAdd (CAdd (CNew 3 2 255) 4 2) 4 9.
Example hex1_exact :
  exists t, crun Hex hex1 = Some t /\ cms_query Hex t 4 = Some 11 /\ truew hex1 4 = 11
            /\ (forall y, y <> 4 -> truew hex1 y = 0).
Proof.
  eexists. split; [vm_compute; reflexivity|]. split; [vm_compute; reflexivity|].
  split; [vm_compute; reflexivity|].
  intros y Hy. cbn [hex1 truew]. destruct (N.eqb_spec y 4); [contradiction|]. reflexivity.
Qed.

(* merge: both orders and both bracketings run, and agree with adding the stream one by one *)
Definition hexb : chist := CAdd (CAdd (CNew 3 2 255) 7 1) 2 4.
Definition hexc : chist := CAdd (CClear (CAdd (CNew 3 2 1000) 5 100)) 6 8.
Example hex_merge_runs :
  (exists t, crun Hex (CMerge hex hexb) = Some t /\ ctbl t = [0; 8; 7; 8; 0; 7]) /\
  (exists t, crun Hex (CMerge hexb hex) = Some t /\ ctbl t = [0; 8; 7; 8; 0; 7]) /\
  (exists t, crun Hex (cadds hex (cstream hexb)) = Some t /\ ctbl t = [0; 8; 7; 8; 0; 7]) /\
  (exists t, crun Hex (CMerge (CMerge hex hexb) hexc) = Some t /\ ctbl t = [8; 8; 7; 8; 8; 7]) /\
  (exists t, crun Hex (CMerge hex (CMerge hexb hexc)) = Some t /\ ctbl t = [8; 8; 7; 8; 8; 7]).
Proof. repeat split; eexists; vm_compute; split; reflexivity. Qed.

(* [crun] really does fail on overflow / shape mismatch, so [crun = Some] is a real hypothesis *)
Example hex_overflow : crun Hex (CAdd (CAdd (CNew 3 2 255) 1 200) 4 56) = None.
Proof. vm_compute. reflexivity. Qed.
Example hex_merge_overflow :
  crun Hex (CMerge (CAdd (CNew 3 2 255) 1 200) (CAdd (CNew 3 2 255) 4 56)) = None.
Proof. vm_compute. reflexivity. Qed.
Example hex_merge_mismatch : crun Hex (CMerge (CNew 3 2 255) (CNew 2 3 255)) = None.
Proof. vm_compute. reflexivity. Qed.

(* clear / is_empty *)
Example hex_clear :
  crun Hex (CClear hex) = Some (cms_new 3 2 255) /\ cms_is_empty (cms_new 3 2 255) = true
  /\ totalw (CClear hex) = 0 /\ cms_is_empty tex = false /\ totalw hex = 10.
Proof. vm_compute. auto 10. Qed.

(* the reference-table lemmas on concrete data *)
Example hex_tbl_of :
  tbl_of Hex 3 2 [(1, 5); (4, 2); (2, 3)] = [0; 7; 3; 7; 0; 3] /\
  tbl_of Hex 3 2 [(2, 3); (1, 5); (4, 2)] = [0; 7; 3; 7; 0; 3].
Proof. vm_compute. auto. Qed.

(* ====================================================================== *)
Print Assumptions pos_lt.
Print Assumptions cms_table_spec.
Print Assumptions tbl_of_perm.
Print Assumptions tbl_of_app.
Print Assumptions cms_merge_comm.
Print Assumptions cms_merge_assoc.
Print Assumptions cms_merge_equals_both_streams.
Print Assumptions cms_query_total.
Print Assumptions cms_lower.
Print Assumptions cms_upper.
Print Assumptions cms_add_returns_query.
Print Assumptions cms_single_exact.
Print Assumptions cms_clear_init.
Print Assumptions cms_is_empty_iff.
