(* Proofs/CuckooBase.v — table-level lemmas for the cuckoo filter model (Model/Cuckoo.v).

   Contents: bit lemmas (power-of-two masks, xor), the rand samplers return in-range values for
   64-bit words, specification of find_slot / write_bucket / remove_from_bucket, the abstraction
   [absl] of a slot table as a multiset (list up to Permutation) of fingerprint classes, the
   single-slot update lemma [absl_upd], and the specification of the eviction loop [kick] and of
   [insert_internal] (multiset effect, shape preservation, undo log).

   Everything holds for EVERY hash function [H]. *)
From PDS Require Import Model.Cuckoo.
From Coq Require Import Permutation ZifyN ZifyBool.

Local Open Scope N_scope.
Ltac Zify.zify_post_hook ::= Z.div_mod_to_equations.

Arguments N.add : simpl never.
Arguments N.sub : simpl never.
Arguments N.mul : simpl never.
Arguments N.div : simpl never.
Arguments N.modulo : simpl never.
Arguments N.pow : simpl never.
Arguments N.leb : simpl never.
Arguments N.ltb : simpl never.
Arguments N.eqb : simpl never.
Arguments N.land : simpl never.
Arguments N.lxor : simpl never.
Arguments N.min : simpl never.
Arguments N.max : simpl never.
Arguments N.testbit : simpl never.
Arguments N.shiftl : simpl never.

(* ====================================================================== *)
(** * Bit lemmas *)

Lemma lxor_lt_pow2 a b e : a < 2^e -> b < 2^e -> N.lxor a b < 2^e.
Proof. intros Ha Hb.
  destruct (N.eq_dec (N.lxor a b) 0) as [E|NE]. { rewrite E. apply N.neq_0_lt_0, N.pow_nonzero; lia. }
  apply N.log2_lt_pow2; [lia|].
  eapply N.le_lt_trans; [apply N.log2_lxor|].
  destruct (N.eq_dec a 0) as [->|Ha0]; destruct (N.eq_dec b 0) as [->|Hb0].
  - rewrite N.lxor_0_l in NE. lia.
  - rewrite N.log2_nonpos by lia. rewrite N.max_r by lia. apply N.log2_lt_pow2; lia.
  - rewrite (N.log2_nonpos 0) by lia. rewrite N.max_l by lia. apply N.log2_lt_pow2; lia.
  - apply N.max_lub_lt; apply N.log2_lt_pow2; lia. Qed.

Lemma lxor_invol i h : N.lxor (N.lxor i h) h = i.
Proof. rewrite N.lxor_assoc, N.lxor_nilpotent, N.lxor_0_r. reflexivity. Qed.

Lemma land_mask_lt x e : N.land x (2^e - 1) < 2^e.
Proof. replace (2^e - 1) with (N.ones e) by (rewrite N.ones_equiv; lia).
  rewrite N.land_ones. apply N.mod_lt, N.pow_nonzero. lia. Qed.

(* the Rust assertion [is_power_of_two] really means: a power of two *)
Lemma is_pow2_spec n : is_pow2 n = true -> n = 2 ^ N.log2 n.
Proof.
  unfold is_pow2. intros Hp. apply andb_true_iff in Hp. destruct Hp as [Hpos Hland].
  apply N.ltb_lt in Hpos. apply N.eqb_eq in Hland.
  destruct (N.log2_spec n Hpos) as [Hlo Hhi].
  destruct (N.eq_dec n (2 ^ N.log2 n)) as [E|NE]; [exact E|exfalso].
  assert (Hb1 : N.testbit n (N.log2 n) = true) by (apply N.bit_log2; lia).
  assert (Hl : N.log2 (n - 1) = N.log2 n).
  { apply N.log2_unique; [lia|]. lia. }
  assert (Hb2 : N.testbit (n - 1) (N.log2 n) = true).
  { rewrite <- Hl. apply N.bit_log2. assert (0 < 2 ^ N.log2 n) by (apply N.neq_0_lt_0, N.pow_nonzero; lia). lia. }
  assert (Hb : N.testbit (N.land n (n - 1)) (N.log2 n) = true) by (rewrite N.land_spec, Hb1, Hb2; reflexivity).
  rewrite Hland, N.bits_0 in Hb. discriminate.
Qed.

(* ====================================================================== *)
(** * The rand samplers on 64-bit words *)

Definition wsok (ws : list N) : Prop := Forall (fun w => w < 2 ^ 64) ws.

Lemma wsok_tl w ws : wsok (w :: ws) -> wsok ws.
Proof. intros Hw. inversion Hw; assumption. Qed.

(* [suffix ws' ws]: ws' is what is left of ws after consuming some words *)
Definition suffix (ws' ws : list N) : Prop := exists pre, ws = pre ++ ws'.

Lemma suffix_refl ws : suffix ws ws.
Proof. exists []. reflexivity. Qed.
Lemma suffix_trans a b c : suffix a b -> suffix b c -> suffix a c.
Proof. intros [p Hp] [q Hq]. exists (q ++ p). rewrite Hq, Hp, app_assoc. reflexivity. Qed.
Lemma suffix_cons w ws : suffix ws (w :: ws).
Proof. exists [w]. reflexivity. Qed.
Lemma suffix_wsok ws' ws : suffix ws' ws -> wsok ws -> wsok ws'.
Proof. intros [p ->] Hw. unfold wsok in *. apply Forall_app in Hw. tauto. Qed.

Lemma lemire_loop_spec lo range zone ws r ws' :
  0 < range -> wsok ws -> lemire_loop lo range zone ws = Some (r, ws') ->
  lo <= r < lo + range /\ suffix ws' ws.
Proof.
  intros Hr. induction ws as [|v ws IH]; intros Hw E; cbn [lemire_loop] in E; [discriminate|].
  destruct (N.leb_spec ((v * range) mod 2 ^ 64) zone) as [Hz|Hz].
  - injection E as <- <-. split; [|apply suffix_cons].
    assert (Hv : v < 2 ^ 64) by (inversion Hw; assumption).
    assert ((v * range) / 2 ^ 64 < range).
    { apply N.div_lt_upper_bound; [apply N.pow_nonzero; lia|]. apply N.mul_lt_mono_pos_r; assumption. }
    lia.
  - destruct (IH (wsok_tl _ _ Hw) E) as [A B]. split; [exact A|].
    eapply suffix_trans; [exact B|apply suffix_cons].
Qed.

Lemma gen_range_spec bs ws e ws' :
  bs < 2 ^ 64 -> wsok ws -> gen_range 0 bs ws = Some (e, ws') -> e < bs /\ suffix ws' ws.
Proof.
  intros Hb Hw. unfold gen_range, gen_range_incl.
  destruct (N.ltb_spec 0 bs) as [Hpos|]; [|discriminate].
  replace (bs - 1 - 0 + 1) with bs by lia. rewrite (u64_small bs Hb).
  destruct (N.eqb_spec bs 0) as [|_]; [lia|].
  intros E. apply lemire_loop_spec in E; [|assumption|assumption]. destruct E as [A B]. split; [lia|exact B].
Qed.

Lemma gen_bool_spec ws b ws' : gen_bool ws = Some (b, ws') -> suffix ws' ws.
Proof. destruct ws as [|w r]; cbn [gen_bool]; intros E; [discriminate|]. injection E as _ <-. apply suffix_cons. Qed.

(* ====================================================================== *)
(** * getD / upd in N-indexed form *)

Lemma getD_upd_same (t : list N) s v : (N.to_nat s < length t)%nat -> getD 0 (upd t (N.to_nat s) v) s = v.
Proof. intros Hs. unfold getD. apply nth_upd_same. exact Hs. Qed.

Lemma getD_upd_other (t : list N) s k v : s <> k -> getD 0 (upd t (N.to_nat s) v) k = getD 0 t k.
Proof. intros Hs. unfold getD. apply nth_upd_other. lia. Qed.

Lemma getD_out (t : list N) k : N.of_nat (length t) <= k -> getD 0 t k = 0.
Proof. intros Hk. unfold getD. apply nth_overflow. lia. Qed.

Lemma getD_nz_lt (t : list N) k : getD 0 t k <> 0 -> (N.to_nat k < length t)%nat.
Proof. intros Hk. destruct (Nat.lt_ge_cases (N.to_nat k) (length t)) as [L|G]; [exact L|].
  exfalso. apply Hk. apply getD_out. lia. Qed.

(* ====================================================================== *)
(** * find_slot *)

Lemma find_slot_Some t off cnt v s :
  find_slot t off cnt v = Some s -> off <= s < off + N.of_nat cnt /\ getD 0 t s = v.
Proof.
  revert off. induction cnt as [|c IH]; intros off E; cbn [find_slot] in E; [discriminate|].
  destruct (N.eqb_spec (getD 0 t off) v) as [Ev|Nv].
  - injection E as <-. split; [lia|exact Ev].
  - apply IH in E. destruct E as [A B]. split; [lia|exact B].
Qed.

Lemma find_slot_None t off cnt v :
  find_slot t off cnt v = None -> forall s, off <= s < off + N.of_nat cnt -> getD 0 t s <> v.
Proof.
  revert off. induction cnt as [|c IH]; intros off E s Hs; cbn [find_slot] in E; [lia|].
  destruct (N.eqb_spec (getD 0 t off) v) as [Ev|Nv]; [discriminate|].
  destruct (N.eq_dec s off) as [->|Ns]; [exact Nv|].
  apply (IH _ E). lia.
Qed.

Lemma find_slot_ex t off cnt v s :
  off <= s < off + N.of_nat cnt -> getD 0 t s = v -> exists s', find_slot t off cnt v = Some s'.
Proof.
  intros Hs Ev. destruct (find_slot t off cnt v) as [s'|] eqn:E; [eauto|].
  exfalso. exact (find_slot_None _ _ _ _ E s Hs Ev).
Qed.

(* ====================================================================== *)
(** * Buckets, table well-formedness *)

Section Tbl.
Variable H : hashfn.
Variables bs nb : N.

(* slot s belongs to bucket i *)
Definition inb (i s : N) : Prop := i * bs <= s < i * bs + bs.

Lemma inb_div i s : inb i s -> s / bs = i.
Proof. unfold inb. intros Hs. assert (0 < bs) by lia. symmetry. apply (N.div_unique s bs i (s - i * bs)); lia. Qed.

Lemma div_inb s : 0 < bs -> inb (s / bs) s.
Proof. unfold inb. intros Hb. pose proof (N.div_mod s bs). pose proof (N.mod_lt s bs). lia. Qed.

Lemma inb_lt i s : i < nb -> inb i s -> s < bs * nb.
Proof. unfold inb. intros Hi Hs. assert (i * bs + bs <= bs * nb) by nia. lia. Qed.

(* parameters accepted by with_params_and_hash *)
Definition wfp : Prop := 2 <= bs /\ is_pow2 nb = true /\ 2 <= nb /\ bs * nb < 2 ^ 64.

(* the table covers all buckets, the tail beyond bs*nb is zero *)
Definition wft (t : list N) : Prop :=
  bs * nb <= N.of_nat (length t) /\ forall k, bs * nb <= k -> getD 0 t k = 0.

Lemma wft_upd t i s v : wft t -> i < nb -> inb i s -> wft (upd t (N.to_nat s) v).
Proof.
  intros [Hl Hz] Hi Hs. split.
  - rewrite upd_length. exact Hl.
  - intros k Hk. rewrite getD_upd_other; [apply Hz; exact Hk|]. pose proof (inb_lt _ _ Hi Hs). lia.
Qed.

Lemma wft_inb_lt t i s : wft t -> i < nb -> inb i s -> (N.to_nat s < length t)%nat.
Proof. intros [Hl _] Hi Hs. pose proof (inb_lt _ _ Hi Hs). lia. Qed.

(* ---------- the bucket hash ---------- *)

Lemma hb_lt y : is_pow2 nb = true -> hb H nb y < nb.
Proof. intros Hp. unfold hb. rewrite (is_pow2_spec _ Hp). apply land_mask_lt. Qed.

Lemma alt_lt i y : is_pow2 nb = true -> i < nb -> N.lxor i (hb H nb y) < nb.
Proof.
  intros Hp Hi. pose proof (hb_lt y Hp) as Hh. rewrite (is_pow2_spec _ Hp) in Hi, Hh |- *.
  apply lxor_lt_pow2; assumption.
Qed.

(* ====================================================================== *)
(** * The abstraction: a multiset of fingerprint classes *)

(* class of fingerprint f sitting in bucket i: f with the unordered pair of candidate buckets *)
Definition cls (f i : N) : N * N * N :=
  (f, N.min i (N.lxor i (hb H nb f)), N.max i (N.lxor i (hb H nb f))).

Lemma cls_alt f i : cls f (N.lxor i (hb H nb f)) = cls f i.
Proof. unfold cls. rewrite lxor_invol. rewrite N.min_comm, N.max_comm. reflexivity. Qed.

Lemma cls_eq_inv f f' i i' : cls f' i' = cls f i -> f' = f /\ (i' = i \/ i' = N.lxor i (hb H nb f)).
Proof. unfold cls. intros E. injection E as Ef Emin Emax. subst f'. split; [reflexivity|]. lia. Qed.

Definition cl1 (f idx : N) : list (N * N * N) := if f =? 0 then [] else [cls f (idx / bs)].

Fixpoint absl (t : list N) (idx : N) : list (N * N * N) :=
  match t with
  | [] => []
  | f :: r => cl1 f idx ++ absl r (idx + 1)
  end.

Lemma cl1_0 idx : cl1 0 idx = [].
Proof. reflexivity. Qed.

Lemma cl1_nz f idx : f <> 0 -> cl1 f idx = [cls f (idx / bs)].
Proof. intros Hf. unfold cl1. destruct (N.eqb_spec f 0); [contradiction|reflexivity]. Qed.

(* THE single-slot update lemma: every operation is a sequence of these *)
Lemma absl_upd_nat t off k b : (k < length t)%nat ->
  Permutation (cl1 (nth k t 0) (off + N.of_nat k) ++ absl (upd t k b) off)
              (cl1 b (off + N.of_nat k) ++ absl t off).
Proof.
  revert off k. induction t as [|a r IH]; intros off k Hk; cbn [length] in Hk; [lia|].
  destruct k as [|k].
  - cbn [nth upd absl]. replace (off + N.of_nat 0) with off by lia. apply Permutation_app_swap_app.
  - cbn [nth upd absl].
    replace (off + N.of_nat (S k)) with (off + 1 + N.of_nat k) by lia.
    eapply perm_trans; [apply Permutation_app_swap_app|].
    eapply perm_trans; [|apply Permutation_app_swap_app].
    apply Permutation_app_head. apply IH. lia.
Qed.

Lemma absl_upd t s b : (N.to_nat s < length t)%nat ->
  Permutation (cl1 (getD 0 t s) s ++ absl (upd t (N.to_nat s) b) 0) (cl1 b s ++ absl t 0).
Proof.
  intros Hs. pose proof (absl_upd_nat t 0 (N.to_nat s) b Hs) as P.
  replace (0 + N.of_nat (N.to_nat s)) with s in P by lia. exact P.
Qed.

(* writing f <> 0 into a free slot of bucket i adds cls f i *)
Lemma absl_put t i s f : (N.to_nat s < length t)%nat -> inb i s -> getD 0 t s = 0 -> f <> 0 ->
  Permutation (absl (upd t (N.to_nat s) f) 0) (cls f i :: absl t 0).
Proof.
  intros Hs Hi Hz Hf. pose proof (absl_upd t s f Hs) as P.
  rewrite Hz, cl1_0, (cl1_nz f s Hf), (inb_div _ _ Hi) in P. exact P.
Qed.

(* clearing a slot of bucket i holding f <> 0 removes cls f i *)
Lemma absl_take t i s f : inb i s -> getD 0 t s = f -> f <> 0 ->
  Permutation (absl t 0) (cls f i :: absl (upd t (N.to_nat s) 0) 0).
Proof.
  intros Hi Hg Hf.
  assert (Hs : (N.to_nat s < length t)%nat) by (apply getD_nz_lt; congruence).
  pose proof (absl_upd t s 0 Hs) as P.
  rewrite Hg, cl1_0, (cl1_nz f s Hf), (inb_div _ _ Hi) in P. symmetry. exact P.
Qed.

(* swapping the content g <> 0 of a slot of bucket i for f <> 0 *)
Lemma absl_swap t i s f g : inb i s -> getD 0 t s = g -> g <> 0 -> f <> 0 ->
  Permutation (cls g i :: absl (upd t (N.to_nat s) f) 0) (cls f i :: absl t 0).
Proof.
  intros Hi Hg Hgz Hf.
  assert (Hs : (N.to_nat s < length t)%nat) by (apply getD_nz_lt; congruence).
  pose proof (absl_upd t s f Hs) as P.
  rewrite Hg, (cl1_nz g s Hgz), (cl1_nz f s Hf), (inb_div _ _ Hi) in P. exact P.
Qed.

Lemma In_absl_nat c t off :
  In c (absl t off) <->
  exists k, (k < length t)%nat /\ nth k t 0 <> 0 /\ c = cls (nth k t 0) ((off + N.of_nat k) / bs).
Proof.
  revert off. induction t as [|a r IH]; intros off; cbn [absl].
  - split; [intros []|intros [k [Hk _]]; cbn [length] in Hk; lia].
  - rewrite in_app_iff, IH. split.
    + intros [Hc|[k [Hk [Hn Hc]]]].
      * unfold cl1 in Hc. destruct (N.eqb_spec a 0) as [|Na]; [destruct Hc|].
        destruct Hc as [<-|[]]. exists O. cbn [nth length]. replace (off + N.of_nat 0) with off by lia.
        repeat split; [lia|exact Na].
      * exists (S k). cbn [nth length]. replace (off + N.of_nat (S k)) with (off + 1 + N.of_nat k) by lia.
        repeat split; [lia|exact Hn|exact Hc].
    + intros [[|k] [Hk [Hn Hc]]]; cbn [nth length] in *.
      * left. rewrite (cl1_nz a off Hn). replace (off + N.of_nat 0) with off in Hc by lia. left. auto.
      * right. exists k. replace (off + N.of_nat (S k)) with (off + 1 + N.of_nat k) in Hc by lia.
        repeat split; [lia|exact Hn|exact Hc].
Qed.

Lemma In_absl c t :
  In c (absl t 0) <-> exists s, getD 0 t s <> 0 /\ c = cls (getD 0 t s) (s / bs).
Proof.
  rewrite In_absl_nat. split.
  - intros [k [Hk [Hn Hc]]]. exists (N.of_nat k). unfold getD. rewrite Nat2N.id.
    replace (0 + N.of_nat k) with (N.of_nat k) in Hc by lia. auto.
  - intros [s [Hn Hc]]. exists (N.to_nat s). pose proof (getD_nz_lt _ _ Hn) as Hl. unfold getD in *.
    replace (0 + N.of_nat (N.to_nat s)) with s by lia. auto.
Qed.

Lemma absl_repeat0 n off : absl (repeat 0 n) off = [].
Proof. revert off. induction n as [|n IH]; intros off; cbn [repeat absl]; [reflexivity|]. rewrite cl1_0, IH. reflexivity. Qed.

Lemma absl_app t1 t2 off : absl (t1 ++ t2) off = absl t1 off ++ absl t2 (off + N.of_nat (length t1)).
Proof.
  revert off. induction t1 as [|a r IH]; intros off; cbn [app absl length].
  - replace (off + N.of_nat 0) with off by lia. reflexivity.
  - rewrite IH, <- app_assoc. replace (off + 1 + N.of_nat (length r)) with (off + N.of_nat (S (length r))) by lia. reflexivity.
Qed.

Lemma absl_zeros t off : (forall k, nth k t 0 = 0) -> absl t off = [].
Proof.
  revert off. induction t as [|a r IH]; intros off Hz; cbn [absl]; [reflexivity|].
  rewrite (Hz O : a = 0), cl1_0, IH; [reflexivity|]. intros k. apply (Hz (S k)).
Qed.

(* number of classes = number of occupied slots *)
Definition occ (t : list N) : nat := length (filter (fun f => negb (f =? 0)) t).

Lemma absl_length t off : length (absl t off) = occ t.
Proof.
  unfold occ. revert off. induction t as [|a r IH]; intros off; cbn [absl filter]; [reflexivity|].
  rewrite app_length, IH. unfold cl1. destruct (N.eqb_spec a 0); reflexivity.
Qed.

Lemma occ_prefix_full t n : (forall k, (k < n)%nat -> nth k t 0 <> 0) -> (n <= occ t)%nat.
Proof.
  unfold occ. revert t. induction n as [|n IH]; intros t Hf; [lia|].
  destruct t as [|a r].
  - exfalso. apply (Hf O); [lia|reflexivity].
  - cbn [filter]. assert (Ha : a <> 0) by (apply (Hf O); lia).
    destruct (N.eqb_spec a 0); [contradiction|]. cbn [negb length].
    apply le_n_S. apply IH. intros k Hk. apply (Hf (S k)). lia.
Qed.

Lemma occ_skipn t a : (occ (skipn a t) <= occ t)%nat.
Proof.
  unfold occ. revert t. induction a as [|a IH]; intros t; [cbn [skipn]; lia|].
  destruct t as [|x r]; [cbn; lia|]. cbn [skipn filter].
  specialize (IH r). destruct (negb (x =? 0)); cbn [length]; lia.
Qed.

Lemma nth_skipn (t : list N) a k : nth k (skipn a t) 0 = nth (a + k) t 0.
Proof.
  revert t. induction a as [|a IH]; intros t; [reflexivity|].
  destruct t as [|x r]; [destruct k; reflexivity|]. cbn [skipn Nat.add nth]. apply IH.
Qed.

(* a full bucket contributes bs occupied slots *)
Lemma full_bucket_occ t i : (forall s, inb i s -> getD 0 t s <> 0) -> bs <= N.of_nat (occ t).
Proof.
  intros Hf. pose proof (occ_skipn t (N.to_nat (i * bs))) as H1.
  assert (H2 : (N.to_nat bs <= occ (skipn (N.to_nat (i * bs)) t))%nat).
  { apply occ_prefix_full. intros k Hk. rewrite nth_skipn.
    specialize (Hf (i * bs + N.of_nat k)). unfold getD in Hf.
    replace (N.to_nat (i * bs + N.of_nat k)) with (N.to_nat (i * bs) + k)%nat in Hf by lia.
    apply Hf. unfold inb. lia. }
  lia.
Qed.

(* ====================================================================== *)
(** * write_bucket / has_in_bucket / remove_from_bucket *)

Lemma write_bucket_Some t i f lg t' lg' :
  write_bucket bs t i f lg = Some (t', lg') ->
  exists s, inb i s /\ getD 0 t s = 0 /\ (N.to_nat s < length t)%nat /\
            t' = upd t (N.to_nat s) f /\ lg' = (s, 0) :: lg.
Proof.
  unfold write_bucket. destruct (find_slot t (i * bs) (N.to_nat bs) 0) as [s|] eqn:Ef; [|discriminate].
  destruct (setN t s f) as [t1|] eqn:Es; [|discriminate]. intros E. injection E as <- <-.
  apply find_slot_Some in Ef. apply setN_Some in Es. destruct Ef as [A B]. destruct Es as [C D].
  exists s. unfold inb. repeat split; try assumption; lia.
Qed.

Lemma write_bucket_None t i f lg :
  (forall s, inb i s -> (N.to_nat s < length t)%nat) ->
  write_bucket bs t i f lg = None -> forall s, inb i s -> getD 0 t s <> 0.
Proof.
  unfold write_bucket. intros Hl E s Hs.
  destruct (find_slot t (i * bs) (N.to_nat bs) 0) as [s0|] eqn:Ef.
  - exfalso. apply find_slot_Some in Ef. destruct Ef as [A B].
    assert (Hs0 : inb i s0) by (unfold inb; lia). specialize (Hl s0 Hs0).
    unfold setN in E. destruct (Nat.ltb_spec (N.to_nat s0) (length t)); [discriminate|lia].
  - apply (find_slot_None _ _ _ _ Ef). unfold inb in Hs. lia.
Qed.

Lemma write_bucket_free t i f lg s :
  (forall s, inb i s -> (N.to_nat s < length t)%nat) ->
  inb i s -> getD 0 t s = 0 -> exists t' lg', write_bucket bs t i f lg = Some (t', lg').
Proof.
  intros Hl Hs Hz. destruct (write_bucket bs t i f lg) as [[t' lg']|] eqn:E; [eauto|].
  exfalso. exact (write_bucket_None _ _ _ _ Hl E s Hs Hz).
Qed.

Lemma has_in_bucket_iff t i f :
  has_in_bucket bs t i f = true <-> exists s, inb i s /\ getD 0 t s = f.
Proof.
  unfold has_in_bucket. split.
  - destruct (find_slot t (i * bs) (N.to_nat bs) f) as [s|] eqn:Ef; [|discriminate]. intros _.
    apply find_slot_Some in Ef. exists s. unfold inb. split; [lia|tauto].
  - intros [s [Hs Hg]]. destruct (find_slot_ex t (i * bs) (N.to_nat bs) f s) as [s' ->]; [unfold inb in Hs; lia|exact Hg|reflexivity].
Qed.

Lemma remove_Some t i f t' : f <> 0 ->
  remove_from_bucket bs t i f = Some t' ->
  exists s, inb i s /\ getD 0 t s = f /\ t' = upd t (N.to_nat s) 0.
Proof.
  unfold remove_from_bucket. intros Hf.
  destruct (find_slot t (i * bs) (N.to_nat bs) f) as [s|] eqn:Ef; [|discriminate]. intros Es.
  apply find_slot_Some in Ef. apply setN_Some in Es. exists s. unfold inb. repeat split; try tauto; lia.
Qed.

Lemma remove_None t i f : f <> 0 ->
  remove_from_bucket bs t i f = None -> has_in_bucket bs t i f = false.
Proof.
  unfold remove_from_bucket, has_in_bucket. intros Hf.
  destruct (find_slot t (i * bs) (N.to_nat bs) f) as [s|] eqn:Ef; [|reflexivity]. intros Es. exfalso.
  apply find_slot_Some in Ef. destruct Ef as [_ Hg].
  assert (Hs : (N.to_nat s < length t)%nat) by (apply getD_nz_lt; congruence).
  unfold setN in Es. destruct (Nat.ltb_spec (N.to_nat s) (length t)); [discriminate|lia].
Qed.

(* membership of a class = presence of the fingerprint in one of the two candidate buckets *)
Lemma In_cls_iff t f i : 0 < bs -> f <> 0 ->
  (In (cls f i) (absl t 0) <->
   has_in_bucket bs t i f = true \/ has_in_bucket bs t (N.lxor i (hb H nb f)) f = true).
Proof.
  intros Hb Hf. rewrite In_absl, !has_in_bucket_iff. split.
  - intros [s [Hn Hc]]. symmetry in Hc. apply cls_eq_inv in Hc. destruct Hc as [Hg [Hi|Hi]].
    + left. exists s. split; [rewrite <- Hi; apply div_inb; exact Hb|exact Hg].
    + right. exists s. split; [rewrite <- Hi; apply div_inb; exact Hb|exact Hg].
  - intros [[s [Hs Hg]]|[s [Hs Hg]]]; exists s; rewrite Hg; (split; [exact Hf|]).
    + rewrite (inb_div _ _ Hs). reflexivity.
    + rewrite (inb_div _ _ Hs), cls_alt. reflexivity.
Qed.

(* ====================================================================== *)
(** * The undo log *)

Lemma restore_cons t s (v : N) lg : restore t ((s, v) :: lg) = restore (upd t (N.to_nat s) v) lg.
Proof. reflexivity. Qed.

Lemma restore_step t s f lg : (N.to_nat s < length t)%nat ->
  restore (upd t (N.to_nat s) f) ((s, getD 0 t s) :: lg) = restore t lg.
Proof. intros Hs. rewrite restore_cons, upd_upd_same. unfold getD. rewrite upd_nth_id by exact Hs. reflexivity. Qed.

(* ====================================================================== *)
(** * write_bucket, kick, insert_internal : effect on the multiset *)

(* what a successful internal insertion of fingerprint f (candidate bucket i) guarantees *)
Definition ins_post (t : list N) (f i : N) (lg : ulog) (ws : list N) (t' : list N) (lg' : ulog) (ws' : list N) : Prop :=
  wft t' /\ length t' = length t /\ Permutation (absl t' 0) (cls f i :: absl t 0) /\
  restore t' lg' = restore t lg /\ suffix ws' ws.

Lemma write_bucket_post t i f lg t' lg' ws :
  wft t -> i < nb -> f <> 0 -> write_bucket bs t i f lg = Some (t', lg') -> ins_post t f i lg ws t' lg' ws.
Proof.
  intros Ht Hi Hf E. apply write_bucket_Some in E. destruct E as [s [Hs [Hz [Hl [-> ->]]]]].
  unfold ins_post. split; [|split; [|split; [|split]]].
  - apply (wft_upd t i s f Ht Hi Hs).
  - apply upd_length.
  - apply absl_put; assumption.
  - rewrite <- Hz. apply restore_step. exact Hl.
  - apply suffix_refl.
Qed.

Lemma kick_ok fuel : forall t f i lg ws t' lg' ws',
  wfp -> wft t -> wsok ws -> f <> 0 -> i < nb -> (forall s, inb i s -> getD 0 t s <> 0) ->
  kick H bs nb t f i lg ws fuel = KOk t' lg' ws' -> ins_post t f i lg ws t' lg' ws'.
Proof.
  induction fuel as [|fu IH]; intros t f i lg ws t' lg' ws' Hp Ht Hw Hf Hi Hfull E; cbn [kick] in E; [discriminate|].
  destruct Hp as [Hbs [Hpow [Hnb Hlt]]].
  destruct (gen_range 0 bs ws) as [[e ws1]|] eqn:Eg; [|discriminate].
  apply gen_range_spec in Eg; [|nia|exact Hw]. destruct Eg as [He Hsuf].
  set (s := i * bs + e) in *.
  assert (Hs : inb i s) by (unfold inb, s; lia).
  destruct (setN t s f) as [t1|] eqn:Es; [|discriminate]. apply setN_Some in Es. destruct Es as [-> Hl].
  set (tmp := getD 0 t s) in *.
  assert (Htmp : tmp <> 0) by (apply Hfull; exact Hs).
  set (t1 := upd t (N.to_nat s) f) in *.
  set (i' := N.lxor i (hb H nb tmp)) in *.
  assert (Hi' : i' < nb) by (apply alt_lt; assumption).
  assert (Ht1 : wft t1) by (apply (wft_upd t i s f Ht Hi Hs)).
  assert (Hl1 : length t1 = length t) by apply upd_length.
  assert (Hsw : Permutation (cls tmp i' :: absl t1 0) (cls f i :: absl t 0)).
  { unfold i'. rewrite cls_alt. apply absl_swap; auto. }
  assert (Hr1 : restore t1 ((s, tmp) :: lg) = restore t lg) by (apply restore_step; exact Hl).
  assert (Hpost : forall t2 lg2 ws2, ins_post t1 tmp i' ((s, tmp) :: lg) ws1 t2 lg2 ws2 -> ins_post t f i lg ws t2 lg2 ws2).
  { intros t2 lg2 ws2 [A [B [C [D F]]]]. unfold ins_post. repeat split; try apply A.
    - congruence.
    - eapply perm_trans; [exact C|exact Hsw].
    - congruence.
    - eapply suffix_trans; eassumption. }
  destruct (write_bucket bs t1 i' tmp ((s, tmp) :: lg)) as [[t2 lg2]|] eqn:Ew.
  - injection E as <- <- <-. apply Hpost. apply write_bucket_post; assumption.
  - apply Hpost. apply (IH t1 tmp i' _ ws1); try assumption.
    + repeat split; assumption.
    + eapply suffix_wsok; eassumption.
    + apply (write_bucket_None _ _ _ _ (fun s0 Hs0 => wft_inb_lt t1 i' s0 Ht1 Hi' Hs0) Ew).
Qed.

(* a kick loop that gives up: the log restores the table it started from *)
Lemma kick_full fuel : forall t f i lg ws t' lg' ws',
  wfp -> wft t -> wsok ws -> i < nb ->
  kick H bs nb t f i lg ws fuel = KFull t' lg' ws' ->
  restore t' lg' = restore t lg /\ suffix ws' ws.
Proof.
  induction fuel as [|fu IH]; intros t f i lg ws t' lg' ws' Hp Ht Hw Hi E; cbn [kick] in E.
  { injection E as <- <- <-. split; [reflexivity|apply suffix_refl]. }
  destruct Hp as [Hbs [Hpow [Hnb Hlt]]].
  destruct (gen_range 0 bs ws) as [[e ws1]|] eqn:Eg; [|discriminate].
  apply gen_range_spec in Eg; [|nia|exact Hw]. destruct Eg as [He Hsuf].
  set (s := i * bs + e) in *.
  assert (Hs : inb i s) by (unfold inb, s; lia).
  destruct (setN t s f) as [t1|] eqn:Es; [|discriminate]. apply setN_Some in Es. destruct Es as [-> Hl].
  set (tmp := getD 0 t s) in *.
  set (t1 := upd t (N.to_nat s) f) in *.
  set (i' := N.lxor i (hb H nb tmp)) in *.
  assert (Hi' : i' < nb) by (apply alt_lt; assumption).
  assert (Ht1 : wft t1) by (apply (wft_upd t i s f Ht Hi Hs)).
  assert (Hr1 : restore t1 ((s, tmp) :: lg) = restore t lg) by (apply restore_step; exact Hl).
  destruct (write_bucket bs t1 i' tmp ((s, tmp) :: lg)) as [[t2 lg2]|] eqn:Ew; [discriminate|].
  apply IH in E; try assumption.
  - destruct E as [A B]. split; [congruence|eapply suffix_trans; eassumption].
  - repeat split; assumption.
  - eapply suffix_wsok; eassumption.
Qed.

(* insert_internal, success *)
Lemma insert_internal_ok t f i1 lg ws t' lg' ws' :
  wfp -> wft t -> wsok ws -> f <> 0 -> i1 < nb ->
  insert_internal H bs nb t f i1 (N.lxor i1 (hb H nb f)) lg ws = KOk t' lg' ws' ->
  ins_post t f i1 lg ws t' lg' ws'.
Proof.
  intros Hp Ht Hw Hf Hi1 E. pose proof Hp as [Hbs [Hpow [Hnb Hlt]]].
  set (i2 := N.lxor i1 (hb H nb f)) in *.
  assert (Hi2 : i2 < nb) by (apply alt_lt; assumption).
  assert (Hc : cls f i2 = cls f i1) by apply cls_alt.
  unfold insert_internal in E.
  destruct (write_bucket bs t i1 f lg) as [[t1 lg1]|] eqn:E1.
  { injection E as <- <- <-. apply write_bucket_post; assumption. }
  destruct (write_bucket bs t i2 f lg) as [[t2 lg2]|] eqn:E2.
  { injection E as <- <- <-. apply (write_bucket_post t i2 f lg t2 lg2 ws) in E2; try assumption.
    unfold ins_post in *. rewrite <- Hc. exact E2. }
  destruct (gen_bool ws) as [[b ws1]|] eqn:Eb; [|discriminate].
  apply gen_bool_spec in Eb.
  pose proof (write_bucket_None _ _ _ _ (fun s0 Hs0 => wft_inb_lt t i1 s0 Ht Hi1 Hs0) E1) as F1.
  pose proof (write_bucket_None _ _ _ _ (fun s0 Hs0 => wft_inb_lt t i2 s0 Ht Hi2 Hs0) E2) as F2.
  assert (Hw1 : wsok ws1) by (eapply suffix_wsok; eassumption).
  destruct b.
  - apply kick_ok in E; try assumption. unfold ins_post in *. destruct E as [A [B [C [D F]]]].
    split; [exact A|split; [exact B|split; [exact C|split; [exact D|]]]]. eapply suffix_trans; eassumption.
  - apply kick_ok in E; try assumption. unfold ins_post in *. rewrite Hc in E. destruct E as [A [B [C [D F]]]].
    split; [exact A|split; [exact B|split; [exact C|split; [exact D|]]]]. eapply suffix_trans; eassumption.
Qed.

(* insert_internal, failure: the log undoes everything *)
Lemma insert_internal_full t f i1 lg ws t' lg' ws' :
  wfp -> wft t -> wsok ws -> i1 < nb ->
  insert_internal H bs nb t f i1 (N.lxor i1 (hb H nb f)) lg ws = KFull t' lg' ws' ->
  restore t' lg' = restore t lg /\ suffix ws' ws.
Proof.
  intros Hp Ht Hw Hi1 E. pose proof Hp as [Hbs [Hpow [Hnb Hlt]]].
  set (i2 := N.lxor i1 (hb H nb f)) in *.
  assert (Hi2 : i2 < nb) by (apply alt_lt; assumption).
  unfold insert_internal in E.
  destruct (write_bucket bs t i1 f lg) as [[t1 lg1]|] eqn:E1; [discriminate|].
  destruct (write_bucket bs t i2 f lg) as [[t2 lg2]|] eqn:E2; [discriminate|].
  destruct (gen_bool ws) as [[b ws1]|] eqn:Eb; [|discriminate].
  apply gen_bool_spec in Eb.
  assert (Hw1 : wsok ws1) by (eapply suffix_wsok; eassumption).
  destruct b; apply kick_full in E; try assumption; destruct E as [A B];
    (split; [exact A|eapply suffix_trans; eassumption]).
Qed.

(* insert_internal with a free slot in a candidate bucket: succeeds, no RNG word consumed *)
Lemma insert_internal_free t f i1 i2 lg ws s :
  wft t -> i1 < nb -> i2 < nb -> (inb i1 s \/ inb i2 s) -> getD 0 t s = 0 ->
  exists t' lg', insert_internal H bs nb t f i1 i2 lg ws = KOk t' lg' ws.
Proof.
  intros Ht Hi1 Hi2 Hs Hz. unfold insert_internal.
  destruct (write_bucket bs t i1 f lg) as [[t1 lg1]|] eqn:E1; [eauto|].
  destruct Hs as [Hs|Hs].
  - exfalso. exact (write_bucket_None _ _ _ _ (fun s0 Hs0 => wft_inb_lt t i1 s0 Ht Hi1 Hs0) E1 s Hs Hz).
  - destruct (write_bucket_free t i2 f lg s (fun s0 Hs0 => wft_inb_lt t i2 s0 Ht Hi2 Hs0) Hs Hz) as [t2 [lg2 ->]]. eauto.
Qed.

End Tbl.

Print Assumptions is_pow2_spec.
Print Assumptions gen_range_spec.
Print Assumptions absl_upd.
Print Assumptions In_cls_iff.
Print Assumptions kick_ok.
Print Assumptions kick_full.
Print Assumptions insert_internal_ok.
Print Assumptions insert_internal_full.
Print Assumptions insert_internal_free.
