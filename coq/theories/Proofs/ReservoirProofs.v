(* Proofs/ReservoirProofs.v — properties C18 (structural validity) and C05 (uniformity) of
   Model/Reservoir.v (src/reservoirsampling.rs) over the rand-0.8.8 sampler models of Model/Rand.v.

   Part 0  samplers, for EVERY 64-bit word (including 0 and 2^64-1):
     lemire_in_range, gen_range_incl_in_range (j <= i), gen_range_in_range (j < k), gen_unit52_lt,
     lemire_None / gen_range_incl_None (failure = every word rejected), lemire_decode (every value
     is produced by some word), lemire_accept_iff (each value has exactly 2^lz accepted words).
   Part 3  gap search:
     gap_search_sound (invariant), gap_fix_law  ((1-p)^(g+1) < u <= (1-p)^g, exact rationals),
     gap_law_unique, gap_fix_tail (gap >= j iff u <= (1-p)^j), gap_fix_total (the fuel always suffices).
   Part 1  C18:
     res_run_valid, res_run_positions, res_add_None (None = out of RNG words, never a panic),
     res_add_enough_words, res_run_never_panics, res_clear_fresh.
   Part 2  C05, exact part (Algorithm R, n <= 4k+1):
     res_add_phase2 / res_add_phase2_Some (decoded-draw connection), reservoir_uniform_exact,
     reservoir_uniform_at, model_outcome_in_outcomes, outcomes_realisable.
   All theorems are closed under the global context (Print Assumptions at the end).

   NOTE (model vs crate): the float `1. - p` of the crate is rounded, which moves the boundary (1-p)^j by
   about j * 2^-54 relative.  With the former fixed 2^-40 ambiguity window of [gap_search] the model gave
   NON-ambiguous answers that differ from the f64 computation (k = 1: i = 3520, v = 4488217069661734:
   exact 19999, f64 20000; i = 20163, v = 4433315291362389: exact 83885, f64 83886).  The window of the
   model now scales with j ((j + 64) / 2^50); both witnesses are now reported ambiguous, see
   [ex_gap_witness1], [ex_gap_witness2] below.  No theorem here depends on the width of the window. *)
From PDS Require Import Model.Reservoir.
From Coq Require Import Lia ZifyN ZifyBool.
Open Scope N_scope.

Arguments N.add : simpl never.
Arguments N.mul : simpl never.
Arguments N.sub : simpl never.
Arguments N.div : simpl never.
Arguments N.modulo : simpl never.
Arguments N.pow : simpl never.
Arguments N.ltb : simpl never.
Arguments N.leb : simpl never.
Arguments N.eqb : simpl never.
Arguments N.testbit : simpl never.

(* ------------------------------------------------------------------------- *)
(** * Part 0: the samplers of Model/Rand.v                                    *)
(* ------------------------------------------------------------------------- *)

Definition words64 (ws : list N) : Prop := Forall (fun w => w < 2 ^ 64) ws.

Lemma words64_cons w ws : words64 (w :: ws) <-> w < 2 ^ 64 /\ words64 ws.
Proof. unfold words64. split; intros H; [inversion H; auto | constructor; tauto]. Qed.

Lemma words64_app a b : words64 (a ++ b) <-> words64 a /\ words64 b.
Proof. unfold words64. apply Forall_app. Qed.

(* the key fact: the high word of v * range is below range *)
Lemma wmul_hi_lt v range : v < 2 ^ 64 -> 0 < range -> v * range / 2 ^ 64 < range.
Proof. intros Hv Hr. apply N.div_lt_upper_bound; [discriminate|]. nia. Qed.

(* [suffix ws' ws]: ws' is what is left of ws after consuming some words *)
Definition suffix (ws' ws : list N) : Prop := exists pre, ws = pre ++ ws'.

Lemma suffix_refl ws : suffix ws ws.
Proof. exists []. reflexivity. Qed.

Lemma suffix_cons w ws' ws : suffix ws' ws -> suffix ws' (w :: ws).
Proof. intros [pre ->]. exists (w :: pre). reflexivity. Qed.

Lemma suffix_trans a b c : suffix a b -> suffix b c -> suffix a c.
Proof. intros [p ->] [q ->]. exists (q ++ p). rewrite app_assoc. reflexivity. Qed.

Lemma suffix_words64 ws' ws : suffix ws' ws -> words64 ws -> words64 ws'.
Proof. intros [pre ->] H. apply words64_app in H. tauto. Qed.

Lemma lemire_in_range lo range zone ws r ws' :
  lemire_loop lo range zone ws = Some (r, ws') -> words64 ws -> 0 < range ->
  lo <= r < lo + range.
Proof.
  intros H Hw Hr. induction ws as [|v t IH]; cbn [lemire_loop] in H; [discriminate|].
  apply words64_cons in Hw. destruct Hw as [Hv Hw].
  destruct (N.leb_spec (v * range mod 2 ^ 64) zone) as [Hz|Hz].
  - inversion H; subst. pose proof (wmul_hi_lt v range Hv Hr). lia.
  - apply IH; assumption.
Qed.

Lemma lemire_suffix lo range zone ws r ws' :
  lemire_loop lo range zone ws = Some (r, ws') -> suffix ws' ws /\ (length ws' < length ws)%nat.
Proof.
  induction ws as [|v t IH]; cbn [lemire_loop]; [discriminate|].
  destruct (v * range mod 2 ^ 64 <=? zone).
  - intros H; inversion H; subst. split; [exists [v]; reflexivity | simpl; lia].
  - intros H. destruct (IH H) as [Hs Hl]. split; [apply suffix_cons; exact Hs | simpl; lia].
Qed.

(* the loop fails only by rejecting every available word *)
Definition lemire_rejects (range zone v : N) : Prop := zone < v * range mod 2 ^ 64.

Lemma lemire_None lo range zone ws :
  lemire_loop lo range zone ws = None <-> Forall (lemire_rejects range zone) ws.
Proof.
  unfold lemire_rejects. induction ws as [|v t IH]; cbn [lemire_loop].
  - split; auto.
  - destruct (N.leb_spec (v * range mod 2 ^ 64) zone) as [Hz|Hz].
    + split; [discriminate|]. intros H. inversion H; subst. lia.
    + rewrite IH. split; intros H; [constructor; auto | inversion H; auto].
Qed.

(* more words never hurt *)
Lemma lemire_app lo range zone ws r ws' e :
  lemire_loop lo range zone ws = Some (r, ws') -> lemire_loop lo range zone (ws ++ e) = Some (r, ws' ++ e).
Proof.
  induction ws as [|v t IH]; cbn [lemire_loop app]; [discriminate|].
  destruct (v * range mod 2 ^ 64 <=? zone); auto. intros H; inversion H; reflexivity.
Qed.

(* the word 0 is always accepted (lo part 0 <= zone), giving the draw lo *)
Lemma lemire_app_zero lo range zone ws e :
  exists r ws', lemire_loop lo range zone (ws ++ 0 :: e) = Some (r, ws') /\ suffix e ws'.
Proof.
  induction ws as [|v t IH]; cbn [lemire_loop app].
  - rewrite N.mul_0_l. change (0 mod 2 ^ 64) with 0. change (0 / 2 ^ 64) with 0.
    destruct (N.leb_spec 0 zone); [|lia]. eexists _, _. split; [reflexivity | apply suffix_refl].
  - destruct (v * range mod 2 ^ 64 <=? zone); [|exact IH].
    eexists _, _. split; [reflexivity|]. exists (t ++ [0]). rewrite <- app_assoc. reflexivity.
Qed.

(* --- gen_range_incl / gen_range : results are in range for EVERY 64-bit word --- *)
Lemma gen_range_incl_in_range i ws j ws' :
  gen_range_incl 0 i ws = Some (j, ws') -> words64 ws -> j <= i.
Proof.
  unfold gen_range_incl. rewrite N.sub_0_r. intros H Hw.
  destruct (N.eqb_spec (u64 (i + 1)) 0) as [E|E].
  - destruct ws as [|w r]; [discriminate|]. inversion H; subst.
    apply words64_cons in Hw. destruct Hw as [Hv _]. unfold u64 in E.
    assert (2 ^ 64 <= i + 1).
    { destruct (N.lt_ge_cases (i + 1) (2 ^ 64)) as [Hlt|]; [|assumption].
      rewrite N.mod_small in E by assumption. lia. }
    lia.
  - apply lemire_in_range in H; [|assumption|lia].
    assert (u64 (i + 1) <= i + 1) by (unfold u64; apply N.mod_le; discriminate). lia.
Qed.

Lemma gen_range_in_range k ws j ws' :
  gen_range 0 k ws = Some (j, ws') -> words64 ws -> j < k.
Proof.
  unfold gen_range. destruct (N.ltb_spec 0 k) as [Hk|Hk]; [|discriminate].
  intros H Hw. apply gen_range_incl_in_range in H; [lia | assumption].
Qed.

Lemma gen_range_incl_suffix lo hi ws j ws' :
  gen_range_incl lo hi ws = Some (j, ws') -> suffix ws' ws /\ (length ws' < length ws)%nat.
Proof.
  unfold gen_range_incl. destruct (u64 (hi - lo + 1) =? 0).
  - destruct ws as [|w r]; [discriminate|]. intros H; inversion H; subst. split; [eexists [_]; reflexivity | simpl; lia].
  - apply lemire_suffix.
Qed.

Lemma gen_range_suffix lo hi ws j ws' :
  gen_range lo hi ws = Some (j, ws') -> suffix ws' ws /\ (length ws' < length ws)%nat.
Proof. unfold gen_range. destruct (lo <? hi); [apply gen_range_incl_suffix | discriminate]. Qed.

(* out of words: gen_range_incl fails only when every word was rejected by Lemire's test *)
Definition all_rejected (lo hi : N) (ws : list N) : Prop :=
  let range := u64 (hi - lo + 1) in
  if range =? 0 then ws = [] else Forall (lemire_rejects range (lemire_zone range)) ws.

Lemma gen_range_incl_None lo hi ws : gen_range_incl lo hi ws = None <-> all_rejected lo hi ws.
Proof.
  unfold gen_range_incl, all_rejected. cbv zeta. destruct (u64 (hi - lo + 1) =? 0).
  - destruct ws; split; congruence.
  - apply lemire_None.
Qed.

Lemma gen_range_None k ws : 0 < k -> (gen_range 0 k ws = None <-> all_rejected 0 (k - 1) ws).
Proof. intros Hk. unfold gen_range. destruct (N.ltb_spec 0 k); [apply gen_range_incl_None | lia]. Qed.

Lemma gen_range_incl_app lo hi ws j ws' e :
  gen_range_incl lo hi ws = Some (j, ws') -> gen_range_incl lo hi (ws ++ e) = Some (j, ws' ++ e).
Proof.
  unfold gen_range_incl. destruct (u64 (hi - lo + 1) =? 0).
  - destruct ws as [|w r]; [discriminate|]. intros H; inversion H; reflexivity.
  - apply lemire_app.
Qed.

Lemma gen_range_incl_app_zero lo hi ws e :
  exists j ws', gen_range_incl lo hi (ws ++ 0 :: e) = Some (j, ws') /\ suffix e ws'.
Proof.
  unfold gen_range_incl. destruct (u64 (hi - lo + 1) =? 0).
  - destruct ws as [|w r]; cbn [app]; eexists _, _; (split; [reflexivity|]).
    + apply suffix_refl.
    + exists (r ++ [0]). rewrite <- app_assoc. reflexivity.
  - apply lemire_app_zero.
Qed.

(* --- gen_unit52, gen_bool --- *)
Lemma gen_unit52_lt ws v ws' : gen_unit52 ws = Some (v, ws') -> words64 ws -> v < 2 ^ 52.
Proof.
  unfold gen_unit52. destruct ws as [|w r]; [discriminate|]. intros H Hw. inversion H; subst.
  apply words64_cons in Hw. destruct Hw as [Hv _].
  apply N.div_lt_upper_bound; [discriminate|]. change (2 ^ 12 * 2 ^ 52) with (2 ^ 64). exact Hv.
Qed.

Lemma gen_unit52_None ws : gen_unit52 ws = None <-> ws = [].
Proof. unfold gen_unit52. destruct ws; split; congruence. Qed.

Lemma gen_unit52_cons w ws : gen_unit52 (w :: ws) = Some (w / 2 ^ 12, ws).
Proof. reflexivity. Qed.

Lemma gen_bool_spec ws b ws' : gen_bool ws = Some (b, ws') -> exists w, ws = w :: ws' /\ b = N.testbit w 31.
Proof. unfold gen_bool. destruct ws as [|w r]; [discriminate|]. intros H; inversion H; subst. eauto. Qed.

(* ------------------------------------------------------------------------- *)
(** * Arithmetic behind the fuel bound of [gap_fix]                            *)
(*    (1 - p)^m <= (1 + m p / r)^(-r)  for every r >= 2, by Bernoulli.         *)
(* ------------------------------------------------------------------------- *)
Section FuelMath.
Local Open Scope Z_scope.

Lemma Zpow_cross a b c d e : 0 <= e -> 0 <= a -> 0 <= d -> a * d <= c * b -> a ^ e * d ^ e <= c ^ e * b ^ e.
Proof.
  intros He Ha Hd H. rewrite <- !Z.pow_mul_l. apply Z.pow_le_mono_l. split; [apply Z.mul_nonneg_nonneg; assumption | exact H].
Qed.

(* Bernoulli, cross-multiplied: (1 - c/d)^n >= 1 - n c/d *)
Lemma bernoulli_cross d c (n : nat) : 0 <= c <= d -> d ^ Z.of_nat n * (d - Z.of_nat n * c) <= (d - c) ^ Z.of_nat n * d.
Proof.
  intros Hc. induction n as [|n IH].
  - change (Z.of_nat 0) with 0. rewrite !Z.pow_0_r. lia.
  - rewrite Nat2Z.inj_succ, !Z.pow_succ_r by lia.
    set (P := d ^ Z.of_nat n) in *. set (Q := (d - c) ^ Z.of_nat n) in *. set (m := Z.of_nat n) in *.
    assert (HP : 0 <= P) by (apply Z.pow_nonneg; lia).
    assert (Hm : 0 <= m) by (unfold m; lia).
    assert (H1 : (d - c) * (P * (d - m * c)) <= (d - c) * (Q * d)) by (apply Z.mul_le_mono_nonneg_l; lia).
    assert (H2 : 0 <= P * (m * (c * c))) by (apply Z.mul_nonneg_nonneg; [lia|]; apply Z.mul_nonneg_nonneg; nia).
    lia.
Qed.

Context (k den : Z) (r : nat) (Hk : 0 <= k <= den) (Hden : 0 < den) (Hr : (2 <= r)%nat).
Let R := Z.of_nat r.
Let d := R * den.
Let num := den - k.

Lemma fm_base : num * (d + k) ^ R <= den * d ^ R.
Proof.
  assert (HR : 2 <= R) by (unfold R; lia).
  assert (Hd : k < d) by (unfold d; nia).
  pose proof (bernoulli_cross d k r ltac:(lia)) as B. fold R in B.
  replace (d - R * k) with (R * num) in B by (unfold d, num; ring).
  assert (S : (d + k) ^ R * (d - k) ^ R <= d ^ R * d ^ R) by (apply Zpow_cross; nia).
  set (X := (d - k) ^ R) in *. set (Y := (d + k) ^ R) in *. set (D := d ^ R) in *.
  assert (HX : 0 < X) by (apply Z.pow_pos_nonneg; lia).
  assert (HD : 0 <= D) by (apply Z.pow_nonneg; lia).
  assert (HY : 0 <= Y) by (apply Z.pow_nonneg; lia).
  assert (B' : D * num <= X * den).
  { apply Z.mul_le_mono_pos_l with (p := R); [lia|].
    replace (R * (D * num)) with (D * (R * num)) by ring.
    replace (R * (X * den)) with (X * d) by (unfold d; ring). exact B. }
  apply Z.mul_le_mono_pos_r with (p := X); [exact HX|].
  assert (Hn : 0 <= num) by (unfold num; lia).
  assert (num * (Y * X) <= num * (D * D)) by (apply Z.mul_le_mono_nonneg_l; assumption).
  assert (D * (D * num) <= D * (X * den)) by (apply Z.mul_le_mono_nonneg_l; assumption).
  lia.
Qed.

Lemma fm_step A : d <= A -> num * (A + k) ^ R <= den * A ^ R.
Proof.
  intros HA. assert (HR : 2 <= R) by (unfold R; lia).
  assert (Hd : 0 < d) by (unfold d; nia).
  assert (C : (A + k) ^ R * d ^ R <= (d + k) ^ R * A ^ R) by (apply Zpow_cross; nia).
  pose proof fm_base as B.
  set (X := (A + k) ^ R) in *. set (Y := (d + k) ^ R) in *. set (D := d ^ R) in *. set (E := A ^ R) in *.
  assert (HD : 0 < D) by (apply Z.pow_pos_nonneg; lia).
  assert (HE : 0 <= E) by (apply Z.pow_nonneg; lia).
  assert (Hn : 0 <= num) by (unfold num; lia).
  apply Z.mul_le_mono_pos_r with (p := D); [exact HD|].
  assert (num * (X * D) <= num * (Y * E)) by (apply Z.mul_le_mono_nonneg_l; assumption).
  assert (E * (num * Y) <= E * (den * D)) by (apply Z.mul_le_mono_nonneg_l; assumption).
  lia.
Qed.

Lemma fm_inv (m : nat) : num ^ Z.of_nat m * (d + Z.of_nat m * k) ^ R <= den ^ Z.of_nat m * d ^ R.
Proof.
  induction m as [|m IH].
  - change (Z.of_nat 0) with 0. rewrite !Z.pow_0_r, Z.mul_0_l, Z.add_0_r. lia.
  - rewrite Nat2Z.inj_succ, !Z.pow_succ_r by lia.
    replace (d + Z.succ (Z.of_nat m) * k) with ((d + Z.of_nat m * k) + k) by ring.
    pose proof (fm_step (d + Z.of_nat m * k) ltac:(nia)) as S.
    set (A := d + Z.of_nat m * k) in *.
    set (N1 := num ^ Z.of_nat m) in *. set (D1 := den ^ Z.of_nat m) in *.
    assert (Hn : 0 <= num) by (unfold num; lia).
    assert (HN : 0 <= N1) by (apply Z.pow_nonneg; exact Hn).
    assert (N1 * (num * (A + k) ^ R) <= N1 * (den * A ^ R)) by (apply Z.mul_le_mono_nonneg_l; assumption).
    assert (den * (N1 * A ^ R) <= den * (D1 * d ^ R)) by (apply Z.mul_le_mono_nonneg_l; lia).
    lia.
Qed.

(* after m steps with m k >= c den :  (1-p)^m (1 + c/r)^r <= 1 *)
Lemma fm_final (m : nat) (c : Z) : 0 <= c -> c * den <= Z.of_nat m * k ->
  num ^ Z.of_nat m * (R + c) ^ R <= den ^ Z.of_nat m * R ^ R.
Proof.
  intros Hc Hm. pose proof (fm_inv m) as I.
  assert (HR : 2 <= R) by (unfold R; lia).
  assert (L : ((R + c) * den) ^ R <= (d + Z.of_nat m * k) ^ R) by (apply Z.pow_le_mono_l; unfold d; nia).
  unfold d in I at 2. rewrite !Z.pow_mul_l in *.
  set (N1 := num ^ Z.of_nat m) in *. set (D1 := den ^ Z.of_nat m) in *. set (DR := den ^ R) in *.
  assert (HDR : 0 < DR) by (apply Z.pow_pos_nonneg; lia).
  assert (Hn : 0 <= N1) by (apply Z.pow_nonneg; unfold num; lia).
  apply Z.mul_le_mono_pos_r with (p := DR); [exact HDR|].
  assert (N1 * ((R + c) ^ R * DR) <= N1 * (d + Z.of_nat m * k) ^ R) by (apply Z.mul_le_mono_nonneg_l; assumption).
  lia.
Qed.
End FuelMath.

(* (1 - k/den)^F < 2^-52 as soon as F * k >= 40 * den   [(1 + 40/256)^256 > 2^52] *)
Lemma fuel_enough (k den : N) (F : nat) : 1 <= k -> k <= den -> 40 * den <= N.of_nat F * k ->
  2 ^ 52 * (den - k) ^ N.of_nat F < den ^ N.of_nat F.
Proof.
  intros Hk Hkd HF.
  pose proof (fm_final (Z.of_N k) (Z.of_N den) 256 ltac:(lia) ltac:(lia) ltac:(lia) F 40 ltac:(lia) ltac:(lia)) as H.
  set (A := ((Z.of_nat 256 + 40) ^ Z.of_nat 256)%Z) in *. set (B := (Z.of_nat 256 ^ Z.of_nat 256)%Z) in *.
  assert (HAB : (2 ^ 52 * B < A)%Z) by (vm_compute; reflexivity).
  assert (HB : (0 < B)%Z) by (vm_compute; reflexivity).
  clearbody A B.
  apply N2Z.inj_lt. rewrite N2Z.inj_mul, !N2Z.inj_pow, N2Z.inj_sub, nat_N_Z by lia.
  change (Z.of_N 2 ^ Z.of_N 52)%Z with (2 ^ 52)%Z.
  set (N1 := ((Z.of_N den - Z.of_N k) ^ Z.of_nat F)%Z) in *. set (D1 := (Z.of_N den ^ Z.of_nat F)%Z) in *.
  set (T := (2 ^ 52)%Z) in *.
  assert (HN : (0 <= N1)%Z) by (apply Z.pow_nonneg; lia).
  assert (HD : (0 < D1)%Z) by (apply Z.pow_pos_nonneg; lia).
  apply Z.mul_lt_mono_pos_r with (p := B); [exact HB|].
  destruct (Z.eq_dec N1 0) as [E|E].
  - rewrite E, Z.mul_0_r, Z.mul_0_l. apply Z.mul_pos_pos; assumption.
  - assert (N1 * (T * B) < N1 * A)%Z by (apply Z.mul_lt_mono_pos_l; lia). lia.
Qed.

(* ------------------------------------------------------------------------- *)
(** * Part 3: the gap search — exact rational gap law, and fuel sufficiency    *)
(* ------------------------------------------------------------------------- *)

Lemma floor_step lo num den : 0 < den -> lo * num / den * den <= lo * num.
Proof. intros Hd. rewrite N.mul_comm. apply N.mul_div_le. lia. Qed.

Lemma ceil_step hi num den : 0 < den -> hi * num <= (hi * num + den - 1) / den * den.
Proof.
  intros Hd. pose proof (N.div_mod (hi * num + den - 1) den ltac:(lia)) as E.
  pose proof (N.mod_lt (hi * num + den - 1) den ltac:(lia)). lia.
Qed.

Lemma pow_succ_N a e : a ^ (e + 1) = a ^ e * a.
Proof. rewrite N.add_1_r, N.pow_succ_r'. apply N.mul_comm. Qed.

Lemma pow_pos_N a e : 0 < a -> 0 < a ^ e.
Proof. intros Ha. assert (a ^ e <> 0) by (apply N.pow_nonzero; lia). lia. Qed.

(* [gap_search] returns None only by exhausting its fuel, each step requiring U <= lo *)
Lemma gap_search_None num den U f : 0 < den -> forall lo hi j e,
  gap_search num den U lo hi j (S f) = None -> lo * den ^ e <= FP * num ^ e ->
  U * den ^ (e + N.of_nat f) <= FP * num ^ (e + N.of_nat f).
Proof.
  intros Hd. induction f as [|f IH]; intros lo hi j e H Hlo.
  - cbn [gap_search] in H.
    destruct (hi + hi * (j + 64) / 2 ^ 50 + 1 <? U); [discriminate|].
    destruct (N.leb_spec U (lo - lo * (j + 64) / 2 ^ 50)) as [HU|HU]; [|discriminate].
    change (N.of_nat 0) with 0. rewrite N.add_0_r.
    assert (U * den ^ e <= lo * den ^ e) by (apply N.mul_le_mono_r; lia). lia.
  - remember (S f) as f1 eqn:Ef. cbn [gap_search] in H.
    destruct (hi + hi * (j + 64) / 2 ^ 50 + 1 <? U); [discriminate|].
    destruct (N.leb_spec U (lo - lo * (j + 64) / 2 ^ 50)) as [HU|HU]; [|discriminate].
    subst f1. apply (IH _ _ _ (e + 1)) in H.
    + replace (e + N.of_nat (S f)) with (e + 1 + N.of_nat f) by lia. exact H.
    + rewrite !pow_succ_N. pose proof (floor_step lo num den Hd) as Hf.
      assert (lo * num / den * den * den ^ e <= lo * num * den ^ e) by (apply N.mul_le_mono_r; exact Hf).
      assert (lo * den ^ e * num <= FP * num ^ e * num) by (apply N.mul_le_mono_r; exact Hlo).
      lia.
Qed.

(* invariant of the search at index j:
     lo <= FP (num/den)^(j+1) <= hi   and   u <= (num/den)^j   (U = u * FP) *)
Lemma gap_search_sound num den U fuel : 0 < den -> forall lo hi j g,
  gap_search num den U lo hi j fuel = Some (g, false) ->
  lo * den ^ (j + 1) <= FP * num ^ (j + 1) -> FP * num ^ (j + 1) <= hi * den ^ (j + 1) ->
  U * den ^ j <= FP * num ^ j ->
  FP * num ^ (g + 1) < U * den ^ (g + 1) /\ U * den ^ g <= FP * num ^ g /\ j <= g.
Proof.
  intros Hd. induction fuel as [|f IH]; intros lo hi j g H Hlo Hhi Hprev; cbn [gap_search] in H; [discriminate|].
  destruct (N.ltb_spec (hi + hi * (j + 64) / 2 ^ 50 + 1) U) as [H1|H1].
  - inversion H; subst g. split; [|split; [exact Hprev | lia]].
    assert (0 < den ^ (j + 1)) by (apply pow_pos_N; exact Hd).
    assert (hi * den ^ (j + 1) < U * den ^ (j + 1)) by (apply N.mul_lt_mono_pos_r; lia). lia.
  - destruct (N.leb_spec U (lo - lo * (j + 64) / 2 ^ 50)) as [HU|HU]; [|discriminate].
    apply IH in H.
    + destruct H as [Ha [Hb Hc]]. split; [exact Ha | split; [exact Hb | lia]].
    + rewrite (pow_succ_N den (j + 1)), (pow_succ_N num (j + 1)).
      pose proof (floor_step lo num den Hd) as Hf.
      assert (lo * num / den * den * den ^ (j + 1) <= lo * num * den ^ (j + 1)) by (apply N.mul_le_mono_r; exact Hf).
      assert (lo * den ^ (j + 1) * num <= FP * num ^ (j + 1) * num) by (apply N.mul_le_mono_r; exact Hlo).
      lia.
    + rewrite (pow_succ_N den (j + 1)), (pow_succ_N num (j + 1)).
      pose proof (ceil_step hi num den Hd) as Hc.
      assert (hi * num * den ^ (j + 1) <= (hi * num + den - 1) / den * den * den ^ (j + 1)) by (apply N.mul_le_mono_r; exact Hc).
      assert (FP * num ^ (j + 1) * num <= hi * den ^ (j + 1) * num) by (apply N.mul_le_mono_r; exact Hhi).
      lia.
    + assert (U * den ^ (j + 1) <= lo * den ^ (j + 1)) by (apply N.mul_le_mono_r; lia). lia.
Qed.

(** The gap law (C05 beyond 4k+1).  With den = i + 2, 1 - p = (den - k)/den and
    u = (2^52 - v)/2^52, a non-ambiguous answer g satisfies, as exact rationals,
        (1-p)^(g+1) < u <= (1-p)^g.                                            *)
Theorem gap_fix_law k i v g : gap_fix k i v = Some (g, false) ->
  let den := i + 2 in
  (den - k) ^ (g + 1) * 2 ^ 52 < (2 ^ 52 - v) * den ^ (g + 1) /\
  (2 ^ 52 - v) * den ^ g <= (den - k) ^ g * 2 ^ 52.
Proof.
  unfold gap_fix. cbv zeta. set (den := i + 2). set (num := den - k). set (U := (2 ^ 52 - v) * 2 ^ 76).
  intros H. assert (Hd : 0 < den) by (unfold den; lia).
  apply gap_search_sound in H; [|exact Hd|..].
  - destruct H as [Ha [Hb _]]. unfold U, FP in Ha, Hb.
    change (2 ^ 128) with (2 ^ 52 * 2 ^ 76) in Ha, Hb.
    set (X := num ^ (g + 1)) in *. set (Y := den ^ (g + 1)) in *. set (X0 := num ^ g) in *. set (Y0 := den ^ g) in *.
    set (c := 2 ^ 52 - v) in *. split; nia.
  - change (0 + 1) with 1. rewrite !N.pow_1_r. rewrite N.mul_comm. apply N.mul_div_le. lia.
  - change (0 + 1) with 1. rewrite !N.pow_1_r. apply ceil_step. exact Hd.
  - rewrite !N.pow_0_r, !N.mul_1_r. unfold U, FP. change (2 ^ 128) with (2 ^ 52 * 2 ^ 76).
    apply N.mul_le_mono_r. lia.
Qed.

(* the two inequalities determine g: the intervals ((1-p)^(g+1), (1-p)^g] are disjoint *)
Lemma gap_law_unique num den c g g' : 0 < den -> num <= den ->
  num ^ (g + 1) * 2 ^ 52 < c * den ^ (g + 1) -> c * den ^ g <= num ^ g * 2 ^ 52 ->
  num ^ (g' + 1) * 2 ^ 52 < c * den ^ (g' + 1) -> c * den ^ g' <= num ^ g' * 2 ^ 52 ->
  g = g'.
Proof.
  intros Hd Hnd.
  assert (W : forall a b, a < b -> num ^ (a + 1) * 2 ^ 52 < c * den ^ (a + 1) -> c * den ^ b <= num ^ b * 2 ^ 52 -> False).
  { intros a b Hab H1 H2. replace b with (a + 1 + (b - (a + 1))) in H2 by lia.
    set (t := b - (a + 1)) in *. rewrite (N.pow_add_r den (a + 1) t), (N.pow_add_r num (a + 1) t) in H2.
    assert (Ht : num ^ t <= den ^ t) by (apply N.pow_le_mono_l; exact Hnd).
    assert (Hp : 0 < den ^ t) by (apply pow_pos_N; exact Hd).
    set (A := num ^ (a + 1)) in *. set (B := den ^ (a + 1)) in *.
    assert (A * 2 ^ 52 * den ^ t < c * B * den ^ t) by (apply N.mul_lt_mono_pos_r; assumption).
    assert (A * 2 ^ 52 * num ^ t <= A * 2 ^ 52 * den ^ t) by (apply N.mul_le_mono_l; exact Ht).
    lia. }
  intros H1 H2 H3 H4. destruct (N.lt_trichotomy g g') as [L|[E|L]]; [exfalso; eapply W; eauto | exact E | exfalso; eapply (W g' g); eauto].
Qed.

(** The fuel of [gap_fix] always suffices (u >= 2^-52 and (1-p)^j decays geometrically):
    [gap_fix] never returns None. *)
Theorem gap_fix_total k i v : 1 <= k -> k <= i + 2 -> v < 2 ^ 52 -> gap_fix k i v <> None.
Proof.
  intros Hk Hki Hv H. unfold gap_fix in H. cbv zeta in H.
  set (den := i + 2) in *. set (num := den - k) in *. set (U := (2 ^ 52 - v) * 2 ^ 76) in *.
  assert (Hd : 0 < den) by (unfold den; lia).
  set (F := 40 * den / k + 2) in *.
  replace (N.to_nat F) with (S (N.to_nat (F - 1))) in H by (unfold F; lia).
  apply (gap_search_None num den U _ Hd _ _ _ 1) in H.
  - replace (1 + N.of_nat (N.to_nat (F - 1))) with (N.of_nat (N.to_nat F)) in H by (unfold F; lia).
    pose proof (fuel_enough k den (N.to_nat F) Hk Hki) as E. fold num in E.
    assert (HF : 40 * den <= N.of_nat (N.to_nat F) * k).
    { rewrite N2Nat.id. unfold F. pose proof (N.mul_div_le (40 * den) k ltac:(lia)).
      pose proof (N.mod_lt (40 * den) k ltac:(lia)). pose proof (N.div_mod (40 * den) k ltac:(lia)). nia. }
    specialize (E HF). set (X := num ^ N.of_nat (N.to_nat F)) in *. set (Y := den ^ N.of_nat (N.to_nat F)) in *.
    unfold U, FP in H. change (2 ^ 128) with (2 ^ 52 * 2 ^ 76) in H.
    assert (1 <= 2 ^ 52 - v) by lia. nia.
  - rewrite !N.pow_1_r. rewrite N.mul_comm. apply N.mul_div_le. lia.
Qed.

(* ------------------------------------------------------------------------- *)
(** * Part 1: structural validity (C18), for ANY RNG words                     *)
(* ------------------------------------------------------------------------- *)

Fixpoint res_run_from (s : reservoir) (xs ws : list N) : option (reservoir * list N) :=
  match xs with
  | [] => Some (s, ws)
  | x :: t => match res_add s x ws with
              | Some (s', ws', _) => res_run_from s' t ws'
              | None => None
              end
  end.
Definition res_run (k : N) (xs ws : list N) : option (reservoir * list N) :=
  match res_new k with Some s => res_run_from s xs ws | None => None end.

(* reachability invariant *)
Definition inv (s : reservoir) : Prop := 1 <= rk s /\ lenN (rres s) = N.min (ri s) (rk s).

(* what one add does to the reservoir when the decoded draw is j (phase 2: Algorithm R) *)
Definition rstepx (k : N) (r : list N) (x j : N) : list N := if j <? k then upd r (N.to_nat j) x else r.
(* the same with the item being its own stream position i *)
Definition rstep (k : N) (r : list N) (i j : N) : list N := rstepx k r i j.

(* --- list helpers --- *)
Lemma In_upd {A} (l : list A) j v y : In y (upd l j v) -> y = v \/ In y l.
Proof.
  revert j; induction l as [|a t IH]; intros [|j]; simpl; intros H; auto.
  - destruct H; auto.
  - destruct H as [H|H]; auto. destruct (IH _ H); auto.
Qed.

Lemma NoDup_upd {A} (l : list A) j v : NoDup l -> ~ In v l -> NoDup (upd l j v).
Proof.
  revert j; induction l as [|a t IH]; intros [|j] Hnd Hv; simpl; auto.
  - inversion Hnd; subst. constructor; auto. intros H. apply Hv. right. assumption.
  - inversion Hnd; subst. constructor.
    + intros H. apply In_upd in H. destruct H; [subst; apply Hv; left; reflexivity | contradiction].
    + apply IH; auto. intros H. apply Hv. right. assumption.
Qed.

Lemma draw_gap_Some k i ws g a ws' : draw_gap k i ws = Some (g, a, ws') ->
  exists w, ws = w :: ws' /\ gap_fix k i (w / 2 ^ 12) = Some (g, a).
Proof.
  unfold draw_gap. destruct ws as [|w r]; [discriminate|]. rewrite gen_unit52_cons.
  destruct (gap_fix k i (w / 2 ^ 12)) as [[g' a']|] eqn:E; [|discriminate].
  intros H; inversion H; subst. eauto.
Qed.

Lemma draw_gap_None k i ws : 1 <= k -> k <= i + 2 -> words64 ws -> draw_gap k i ws = None -> ws = [].
Proof.
  intros Hk Hki Hw. unfold draw_gap. destruct (gen_unit52 ws) as [[v ws']|] eqn:E.
  - apply gen_unit52_lt in E; [|exact Hw]. pose proof (gap_fix_total k i v Hk Hki E) as T.
    destruct (gap_fix k i v) as [[g a]|]; [discriminate | congruence].
  - intros _. apply gen_unit52_None. exact E.
Qed.

Lemma draw_gap_app k i ws g a ws' e : draw_gap k i ws = Some (g, a, ws') -> draw_gap k i (ws ++ e) = Some (g, a, ws' ++ e).
Proof.
  intros H. apply draw_gap_Some in H. destruct H as [w [-> H]]. unfold draw_gap. cbn [app]. rewrite gen_unit52_cons, H. reflexivity.
Qed.

(* --- the shape of a successful add --- *)
Inductive add_shape (s : reservoir) (x : N) (s' : reservoir) : Prop :=
| shape_fill : ri s < rk s -> rres s' = rres s ++ [x] -> add_shape s x s'
| shape_keep : rk s <= ri s -> rres s' = rres s -> add_shape s x s'
| shape_repl (j : nat) : rk s <= ri s -> (j < length (rres s))%nat -> rres s' = upd (rres s) j x -> add_shape s x s'.

Lemma res_add_shape s x ws s' ws' a : res_add s x ws = Some (s', ws', a) ->
  rk s' = rk s /\ ri s' = ri s + 1 /\ suffix ws' ws /\ add_shape s x s'.
Proof.
  unfold res_add. cbv zeta.
  destruct (N.ltb_spec (ri s) (rk s)) as [H1|H1].
  { intros H; inversion H; subst; cbn. repeat split; [apply suffix_refl | apply shape_fill; auto]. }
  destruct (N.leb_spec (ri s) (4 * rk s)) as [H2|H2].
  { destruct (gen_range_incl 0 (ri s) ws) as [[j ws1]|] eqn:Eg; [|discriminate].
    apply gen_range_incl_suffix in Eg. destruct Eg as [Sg _].
    assert (Sh : forall r', (if j <? rk s then setN (rres s) j x else Some (rres s)) = Some r' ->
                  forall sk, add_shape s x {| rk := rk s; rres := r'; ri := ri s + 1; rskip := sk |}).
    { intros r' Er sk. destruct (j <? rk s).
      - apply setN_Some in Er. destruct Er as [-> Hl]. eapply shape_repl; eauto.
      - inversion Er; subst. apply shape_keep; auto. }
    destruct (if j <? rk s then setN (rres s) j x else Some (rres s)) as [r'|]; [|discriminate].
    specialize (Sh r' eq_refl).
    destruct (ri s =? 4 * rk s).
    - destruct (draw_gap (rk s) (ri s) ws1) as [[[g am] ws2]|] eqn:Ed; [|discriminate].
      apply draw_gap_Some in Ed. destruct Ed as [w [-> _]].
      intros H; inversion H; subst; cbn. repeat split; [|apply Sh].
      eapply suffix_trans; [|exact Sg]. exists [w]. reflexivity.
    - intros H; inversion H; subst; cbn. repeat split; [exact Sg | apply Sh]. }
  destruct (N.leb_spec (rskip s) (ri s)) as [H3|H3].
  { destruct (gen_range 0 (rk s) ws) as [[j ws1]|] eqn:Eg; [|discriminate].
    apply gen_range_suffix in Eg. destruct Eg as [Sg _].
    destruct (setN (rres s) j x) as [r'|] eqn:Er; [|discriminate].
    apply setN_Some in Er. destruct Er as [-> Hl].
    destruct (draw_gap (rk s) (ri s) ws1) as [[[g am] ws2]|] eqn:Ed; [|discriminate].
    apply draw_gap_Some in Ed. destruct Ed as [w [-> _]].
    intros H; inversion H; subst; cbn. repeat split.
    - eapply suffix_trans; [|exact Sg]. exists [w]. reflexivity.
    - eapply shape_repl; eauto; lia. }
  intros H; inversion H; subst; cbn. repeat split; [apply suffix_refl | apply shape_keep; auto; lia].
Qed.

Lemma inv_length s : inv s -> length (rres s) = Nat.min (N.to_nat (ri s)) (N.to_nat (rk s)).
Proof. intros [_ H]. unfold lenN in H. lia. Qed.

Lemma res_add_inv s x ws s' ws' a : inv s -> res_add s x ws = Some (s', ws', a) -> inv s'.
Proof.
  intros [Hk Hl] H. apply res_add_shape in H. destruct H as [Ek [Ei [_ Sh]]]. unfold inv, lenN in *. rewrite Ek, Ei.
  split; [exact Hk|]. destruct Sh as [Hlt E|Hge E|j Hge Hj E]; rewrite E.
  - rewrite app_length. cbn [length]. lia.
  - lia.
  - rewrite upd_length. lia.
Qed.

Lemma res_new_inv k s : res_new k = Some s -> inv s /\ rk s = k /\ ri s = 0 /\ rres s = [].
Proof.
  unfold res_new. destruct (N.ltb_spec 0 k) as [Hk|Hk]; [|discriminate]. intros H; inversion H; subst; cbn.
  unfold inv, lenN; cbn. repeat split; lia.
Qed.

(* --- the decoded-draw connection (phase 2) --- *)
Lemma res_add_phase2 s x ws j ws1 : inv s -> words64 ws -> rk s <= ri s -> ri s <= 4 * rk s ->
  gen_range_incl 0 (ri s) ws = Some (j, ws1) ->
  j <= ri s /\
  (ri s < 4 * rk s ->
     res_add s x ws = Some ({| rk := rk s; rres := rstepx (rk s) (rres s) x j; ri := ri s + 1; rskip := rskip s |}, ws1, false)) /\
  (ri s = 4 * rk s -> forall g a ws2, draw_gap (rk s) (ri s) ws1 = Some (g, a, ws2) ->
     res_add s x ws = Some ({| rk := rk s; rres := rstepx (rk s) (rres s) x j; ri := ri s + 1; rskip := ri s + 1 + g |}, ws2, a)).
Proof.
  intros Hi Hw H1 H2 Eg. pose proof (gen_range_incl_in_range _ _ _ _ Eg Hw) as Hj.
  pose proof (inv_length s Hi) as Hl.
  assert (Es : (if j <? rk s then setN (rres s) j x else Some (rres s)) = Some (rstepx (rk s) (rres s) x j)).
  { unfold rstepx. destruct (N.ltb_spec j (rk s)) as [Hjk|Hjk]; [|reflexivity].
    unfold setN. destruct (Nat.ltb_spec (N.to_nat j) (length (rres s))); [reflexivity | lia]. }
  split; [exact Hj|]. split.
  - intros H3. unfold res_add. cbv zeta.
    destruct (N.ltb_spec (ri s) (rk s)); [lia|]. destruct (N.leb_spec (ri s) (4 * rk s)); [|lia].
    rewrite Eg, Es. destruct (N.eqb_spec (ri s) (4 * rk s)); [lia | reflexivity].
  - intros H3 g a ws2 Ed. unfold res_add. cbv zeta.
    destruct (N.ltb_spec (ri s) (rk s)); [lia|]. destruct (N.leb_spec (ri s) (4 * rk s)); [|lia].
    rewrite Eg, Es. destruct (N.eqb_spec (ri s) (4 * rk s)); [|lia]. rewrite Ed. reflexivity.
Qed.

(* --- never panics: [None] only by running out of RNG words --- *)
Definition out_of_words (s : reservoir) (ws : list N) : Prop :=
  (rk s <= ri s <= 4 * rk s /\
     (all_rejected 0 (ri s) ws \/
      (ri s = 4 * rk s /\ exists j, gen_range_incl 0 (ri s) ws = Some (j, [])))) \/
  (4 * rk s < ri s /\ rskip s <= ri s /\
     (all_rejected 0 (rk s - 1) ws \/ exists j, gen_range 0 (rk s) ws = Some (j, []))).

Theorem res_add_None s x ws : inv s -> words64 ws -> res_add s x ws = None -> out_of_words s ws.
Proof.
  intros Hi Hw. pose proof (inv_length s Hi) as Hl. destruct Hi as [Hk _].
  unfold res_add, out_of_words. cbv zeta.
  destruct (N.ltb_spec (ri s) (rk s)) as [H1|H1]; [discriminate|].
  destruct (N.leb_spec (ri s) (4 * rk s)) as [H2|H2].
  { intros H. left. split; [lia|].
    destruct (gen_range_incl 0 (ri s) ws) as [[j ws1]|] eqn:Eg; [|left; apply gen_range_incl_None; exact Eg].
    pose proof (gen_range_incl_in_range _ _ _ _ Eg Hw) as Hj.
    assert (Hw1 : words64 ws1) by (eapply suffix_words64; [apply (gen_range_incl_suffix _ _ _ _ _ Eg) | exact Hw]).
    assert (Es : exists r', (if j <? rk s then setN (rres s) j x else Some (rres s)) = Some r').
    { destruct (N.ltb_spec j (rk s)) as [Hjk|Hjk]; [|eauto].
      unfold setN. destruct (Nat.ltb_spec (N.to_nat j) (length (rres s))); [eauto | lia]. }
    destruct Es as [r' Er]. rewrite Er in H.
    destruct (N.eqb_spec (ri s) (4 * rk s)) as [E|E]; [|discriminate H].
    destruct (draw_gap (rk s) (ri s) ws1) as [[[g am] ws2]|] eqn:Ed; [discriminate H|].
    right. split; [exact E|]. apply draw_gap_None in Ed; [|lia|lia|exact Hw1]. subst ws1. eauto. }
  destruct (N.leb_spec (rskip s) (ri s)) as [H3|H3]; [|discriminate].
  intros H. right. split; [lia|]. split; [exact H3|].
  destruct (gen_range 0 (rk s) ws) as [[j ws1]|] eqn:Eg; [|left; apply gen_range_None; [lia | exact Eg]].
  pose proof (gen_range_in_range _ _ _ _ Eg Hw) as Hj.
  assert (Hw1 : words64 ws1) by (eapply suffix_words64; [apply (gen_range_suffix _ _ _ _ _ Eg) | exact Hw]).
  unfold setN in H. destruct (Nat.ltb_spec (N.to_nat j) (length (rres s))); [|lia].
  destruct (draw_gap (rk s) (ri s) ws1) as [[[g am] ws2]|] eqn:Ed; [discriminate H|].
  right. apply draw_gap_None in Ed; [|lia|lia|exact Hw1]. subst ws1. eauto.
Qed.

(* two more words (e.g. zeros: always accepted) are always enough *)
Theorem res_add_enough_words s x ws : inv s -> words64 ws ->
  exists s' ws' a, res_add s x (ws ++ [0; 0]) = Some (s', ws', a).
Proof.
  intros Hi Hw. destruct (res_add s x (ws ++ [0; 0])) as [[[s' ws'] a]|] eqn:E; [eauto|]. exfalso.
  assert (Hw' : words64 (ws ++ [0; 0])).
  { apply words64_app. split; [exact Hw|]. repeat constructor. }
  apply res_add_None in E; [|exact Hi|exact Hw'].
  assert (Z : forall hi, (all_rejected 0 hi (ws ++ [0; 0]) \/ exists j, gen_range_incl 0 hi (ws ++ [0; 0]) = Some (j, [])) -> False).
  { intros hi [R|[j R]]; destruct (gen_range_incl_app_zero 0 hi ws [0]) as [j' [w' [Ez Sz]]].
    - apply gen_range_incl_None in R. congruence.
    - rewrite Ez in R. inversion R; subst. destruct Sz as [pre Sz]. destruct pre; discriminate. }
  destruct E as [[_ [R|[_ R]]]|[_ [_ R]]].
  - eapply Z; eauto.
  - eapply Z; eauto.
  - destruct Hi as [Hk _]. apply (Z (rk s - 1)). destruct R as [R|[j R]]; [left; exact R|right].
    unfold gen_range in R. destruct (N.ltb_spec 0 (rk s)); [eauto | lia].
Qed.

(* more words never change the outcome of a successful add *)
Lemma res_add_app s x ws s' ws' a e : res_add s x ws = Some (s', ws', a) -> res_add s x (ws ++ e) = Some (s', ws' ++ e, a).
Proof.
  unfold res_add. cbv zeta.
  destruct (ri s <? rk s). { intros H; inversion H; reflexivity. }
  destruct (ri s <=? 4 * rk s).
  { destruct (gen_range_incl 0 (ri s) ws) as [[j ws1]|] eqn:Eg; [|discriminate].
    rewrite (gen_range_incl_app _ _ _ _ _ e Eg).
    destruct (if j <? rk s then setN (rres s) j x else Some (rres s)) as [r'|]; [|discriminate].
    destruct (ri s =? 4 * rk s).
    - destruct (draw_gap (rk s) (ri s) ws1) as [[[g am] ws2]|] eqn:Ed; [|discriminate].
      rewrite (draw_gap_app _ _ _ _ _ _ e Ed). intros H; inversion H; reflexivity.
    - intros H; inversion H; reflexivity. }
  destruct (rskip s <=? ri s); [|intros H; inversion H; reflexivity].
  unfold gen_range. destruct (0 <? rk s); [|discriminate].
  destruct (gen_range_incl 0 (rk s - 1) ws) as [[j ws1]|] eqn:Eg; [|discriminate].
  rewrite (gen_range_incl_app _ _ _ _ _ e Eg).
  destruct (setN (rres s) j x) as [r'|]; [|discriminate].
  destruct (draw_gap (rk s) (ri s) ws1) as [[[g am] ws2]|] eqn:Ed; [|discriminate].
  rewrite (draw_gap_app _ _ _ _ _ _ e Ed). intros H; inversion H; reflexivity.
Qed.

(* --- the run-level invariant: [seen] = the items added so far, oldest first --- *)
Definition Inv (seen : list N) (s : reservoir) : Prop :=
  1 <= rk s /\ ri s = lenN seen /\
  length (rres s) = Nat.min (length seen) (N.to_nat (rk s)) /\
  incl (rres s) seen /\
  (NoDup seen -> NoDup (rres s)) /\
  ((length seen <= N.to_nat (rk s))%nat -> rres s = seen).

Lemma Inv_inv seen s : Inv seen s -> inv s.
Proof. intros [Hk [Hi [Hl _]]]. unfold inv, lenN in *. split; [exact Hk | lia]. Qed.

Lemma Inv_step seen s x ws s' ws' a : Inv seen s -> res_add s x ws = Some (s', ws', a) -> Inv (seen ++ [x]) s'.
Proof.
  intros [Hk [Hi [Hl [Hin [Hnd Hpre]]]]] H. apply res_add_shape in H. destruct H as [Ek [Ei [_ Sh]]].
  unfold Inv, lenN in *. rewrite Ek, Ei, app_length. cbn [length].
  split; [exact Hk|]. split; [lia|].
  assert (ND : NoDup (seen ++ [x]) -> NoDup seen /\ ~ In x seen).
  { intros D. apply NoDup_remove in D. rewrite app_nil_r in D. exact D. }
  destruct Sh as [Hlt E|Hge E|j Hge Hj E]; rewrite E.
  - rewrite app_length. cbn [length]. split; [lia|].
    rewrite (Hpre ltac:(lia)). split; [apply incl_refl|]. split; [auto|]. reflexivity.
  - split; [lia|]. split; [apply incl_appl; exact Hin|]. split; [intros D; apply Hnd, ND, D | lia].
  - rewrite upd_length. split; [lia|]. split; [|split; [|lia]].
    + intros y Hy. apply In_upd in Hy. apply in_or_app. destruct Hy as [->|Hy]; [right; left; reflexivity | left; auto].
    + intros D. apply ND in D. destruct D as [D1 D2]. apply NoDup_upd; [auto|]. intros Hx. apply D2, Hin, Hx.
Qed.

Lemma res_run_from_Inv xs : forall seen s ws s' ws', Inv seen s -> res_run_from s xs ws = Some (s', ws') ->
  Inv (seen ++ xs) s' /\ rk s' = rk s /\ suffix ws' ws.
Proof.
  induction xs as [|x t IH]; intros seen s ws s' ws' Hi H; cbn [res_run_from] in H.
  - inversion H; subst. rewrite app_nil_r. split; [exact Hi | split; [reflexivity | apply suffix_refl]].
  - destruct (res_add s x ws) as [[[s1 ws1] a]|] eqn:E; [|discriminate].
    pose proof (Inv_step _ _ _ _ _ _ _ Hi E) as Hi1. apply res_add_shape in E. destruct E as [Ek [_ [Sf _]]].
    apply (IH _ _ _ _ _ Hi1) in H. destruct H as [HI [Hk Hs]].
    rewrite <- app_assoc in HI. cbn [app] in HI. split; [exact HI | split; [congruence | eapply suffix_trans; eauto]].
Qed.

Lemma res_new_Inv k s : res_new k = Some s -> Inv [] s /\ rk s = k.
Proof.
  unfold res_new. destruct (N.ltb_spec 0 k) as [Hk|Hk]; [|discriminate]. intros H; inversion H; subst; cbn.
  unfold Inv, lenN; cbn. repeat split; try lia; try apply incl_refl. intros _. constructor.
Qed.

(** C18: structural validity of every reachable state, for ANY RNG words. *)
Theorem res_run_valid k xs ws s ws' : res_run k xs ws = Some (s, ws') ->
  1 <= k /\ rk s = k /\
  length (rres s) = Nat.min (length xs) (N.to_nat k) /\
  ri s = N.of_nat (length xs) /\
  (res_is_empty s = true <-> xs = []) /\
  ((length xs <= N.to_nat k)%nat -> rres s = xs) /\
  incl (rres s) xs /\
  (NoDup xs -> NoDup (rres s)) /\
  inv s /\ suffix ws' ws.
Proof.
  unfold res_run. destruct (res_new k) as [s0|] eqn:E0; [|discriminate]. intros H.
  apply res_new_Inv in E0. destruct E0 as [I0 K0].
  apply (res_run_from_Inv xs [] s0 ws s ws' I0) in H. cbn [app] in H. destruct H as [HI [Hk Hs]].
  pose proof (Inv_inv _ _ HI) as Hinv.
  destruct HI as [H1 [H2 [H3 [H4 [H5 H6]]]]]. rewrite Hk, K0 in *. unfold lenN in H2.
  split; [exact H1|]. split; [reflexivity|]. split; [exact H3|]. split; [exact H2|].
  split; [|split; [exact H6|split; [exact H4|split; [exact H5|split; [exact Hinv|exact Hs]]]]].
  split.
  - unfold res_is_empty. rewrite H2. intros Hz. apply N.eqb_eq in Hz. destruct xs; [reflexivity | cbn in Hz; lia].
  - intros ->. unfold res_is_empty. rewrite H2. reflexivity.
Qed.

(* stream positions as items: no position is stored twice, every entry is a position < n *)
Lemma Nseq_NoDup s n : NoDup (Nseq s n).
Proof.
  revert s; induction n as [|n IH]; intros s; cbn [Nseq]; constructor; [|apply IH].
  rewrite Nseq_In. lia.
Qed.

Corollary res_run_positions k n ws s ws' : res_run k (Nseq 0 n) ws = Some (s, ws') ->
  NoDup (rres s) /\ (forall p, In p (rres s) -> p < N.of_nat n) /\ length (rres s) = Nat.min n (N.to_nat k).
Proof.
  intros H. apply res_run_valid in H. destruct H as [_ [_ [Hl [_ [_ [_ [Hin [Hnd _]]]]]]]].
  rewrite Nseq_length in Hl. split; [apply Hnd, Nseq_NoDup|]. split; [|exact Hl].
  intros p Hp. apply Hin, Nseq_In in Hp. lia.
Qed.

(* clear = fresh *)
Lemma res_clear_fresh s : inv s -> res_new (rk s) = Some (res_clear s).
Proof. intros [Hk _]. unfold res_new, res_clear. destruct (N.ltb_spec 0 (rk s)); [reflexivity | lia]. Qed.

Lemma res_clear_run s xs ws : inv s -> res_run (rk s) xs ws = res_run_from (res_clear s) xs ws.
Proof. intros Hi. unfold res_run. rewrite (res_clear_fresh s Hi). reflexivity. Qed.

(* with all-zero words (always accepted) a run of any length succeeds: no add ever panics *)
Lemma res_run_from_zeros xs : forall s m, inv s -> (2 * length xs <= m)%nat ->
  exists s' ws', res_run_from s xs (repeat 0 m) = Some (s', ws').
Proof.
  induction xs as [|x t IH]; intros s m Hi Hm; cbn [res_run_from]; [eauto|].
  cbn [length] in Hm. destruct m as [|[|m]]; [lia|lia|].
  destruct (res_add_enough_words s x [] Hi ltac:(constructor)) as [s1 [ws1 [a E]]]. cbn [app] in E.
  apply (res_add_app _ _ _ _ _ _ (repeat 0 m)) in E. change ([0; 0] ++ repeat 0 m) with (repeat 0 (S (S m))) in E.
  rewrite E. pose proof (res_add_inv _ _ _ _ _ _ Hi E) as Hi1.
  apply res_add_shape in E. destruct E as [_ [_ [[pre Sf] _]]].
  assert (Er : exists m', ws1 ++ repeat 0 m = repeat 0 m' /\ (m <= m')%nat).
  { exists (length (ws1 ++ repeat 0 m)). split.
    - apply Forall_eq_repeat. apply Forall_forall. intros y Hy.
      assert (In y (repeat 0 (S (S m)))) by (rewrite Sf; apply in_or_app; right; exact Hy).
      symmetry. eapply repeat_spec; eauto.
    - rewrite app_length, repeat_length. lia. }
  destruct Er as [m' [-> Hm']]. apply IH; [exact Hi1 | lia].
Qed.

Theorem res_run_never_panics k xs : 1 <= k -> exists s ws', res_run k xs (repeat 0 (2 * length xs)) = Some (s, ws').
Proof.
  intros Hk. unfold res_run. destruct (res_new k) as [s0|] eqn:E.
  - apply res_new_inv in E. destruct E as [Hi _]. apply res_run_from_zeros; [exact Hi | lia].
  - unfold res_new in E. destruct (N.ltb_spec 0 k); [discriminate | lia].
Qed.

(* ------------------------------------------------------------------------- *)
(** * Part 2: uniformity (C05), exact part                                     *)
(* ------------------------------------------------------------------------- *)

(** ** Every draw is realisable: the Lemire sampler decodes to every value *)

(* zone = range * 2^lz - 1 : no overflow, at least range - 1 *)
Lemma lemire_zone_eq range : 0 < range < 2 ^ 64 ->
  lemire_zone range = range * 2 ^ lz64 range - 1 /\ range <= range * 2 ^ lz64 range < 2 ^ 64.
Proof.
  intros [H0 H1]. unfold lemire_zone, lz64. rewrite N.shiftl_mul_pow2.
  set (S := N.size range).
  assert (HS : S <= 64).
  { unfold S. rewrite N.size_log2 by lia. apply N.le_succ_l. apply N.log2_lt_pow2; assumption. }
  pose proof (N.size_gt range) as Hg. fold S in Hg.
  assert (Hy : range * 2 ^ (64 - S) < 2 ^ 64).
  { replace (2 ^ 64) with (2 ^ S * 2 ^ (64 - S)) by (rewrite <- N.pow_add_r; f_equal; lia).
    apply N.mul_lt_mono_pos_r; [apply pow_pos_N; lia | exact Hg]. }
  assert (Hp : 1 <= 2 ^ (64 - S)) by (pose proof (pow_pos_N 2 (64 - S)); lia).
  set (y := range * 2 ^ (64 - S)) in *.
  assert (Hyr : range <= y) by (unfold y; nia).
  rewrite (u64_small y Hy). split; [|lia].
  unfold u64. symmetry. apply (N.mod_unique _ _ 1); lia.
Qed.

Lemma lemire_decode lo range j rest : 0 < range < 2 ^ 64 -> j < range ->
  let v := (j * 2 ^ 64 + range - 1) / range in
  v < 2 ^ 64 /\ lemire_loop lo range (lemire_zone range) (v :: rest) = Some (lo + j, rest).
Proof.
  intros Hr Hj v. destruct (lemire_zone_eq range Hr) as [Ez [Hz1 Hz2]].
  set (M := 2 ^ 64) in *. assert (HM : 0 < M) by (unfold M; lia).
  pose proof (N.div_mod (j * M + range - 1) range ltac:(lia)) as Ed. fold v in Ed.
  pose proof (N.mod_lt (j * M + range - 1) range ltac:(lia)) as Hm.
  set (m := (j * M + range - 1) mod range) in *.
  (* v * range = j * M + (range - 1 - m) *)
  assert (Ep : v * range = M * j + (range - 1 - m)) by lia.
  assert (Hlow : range - 1 - m < M) by lia.
  split.
  - destruct (N.lt_ge_cases v M) as [L|L]; [exact L|]. exfalso.
    assert (M * range <= v * range) by (apply N.mul_le_mono_r; exact L). nia.
  - cbn [lemire_loop]. cbv zeta. fold M.
    rewrite <- (N.div_unique (v * range) M j (range - 1 - m) Hlow Ep).
    rewrite <- (N.mod_unique (v * range) M j (range - 1 - m) Hlow Ep).
    destruct (N.leb_spec (range - 1 - m) (lemire_zone range)); [reflexivity | lia].
Qed.

Lemma gen_range_incl_decode i j : i + 1 < 2 ^ 64 -> j <= i ->
  exists v, v < 2 ^ 64 /\ forall rest, gen_range_incl 0 i (v :: rest) = Some (j, rest).
Proof.
  intros Hi Hj. exists ((j * 2 ^ 64 + (i + 1) - 1) / (i + 1)).
  unfold gen_range_incl. rewrite N.sub_0_r, (u64_small _ Hi).
  destruct (N.eqb_spec (i + 1) 0); [lia|].
  destruct (lemire_decode 0 (i + 1) j [] ltac:(lia) ltac:(lia)) as [Hv _]. split; [exact Hv|].
  intros rest. destruct (lemire_decode 0 (i + 1) j rest ltac:(lia) ltac:(lia)) as [_ E]. exact E.
Qed.

(** ** Algorithm R over ALL draw sequences: each position survives in exactly k/n of the outcomes *)

(* the decoded-draw step with nat indices; items are their own stream positions *)
Definition stepn (K : nat) (r : list N) (i : N) (j : nat) : list N := if (j <? K)%nat then upd r j i else r.

Lemma rstepx_stepn k r x j : rstepx k r x (N.of_nat j) = stepn (N.to_nat k) r x j.
Proof.
  unfold rstepx, stepn. rewrite Nat2N.id.
  destruct (N.ltb_spec (N.of_nat j) k); destruct (Nat.ltb_spec j (N.to_nat k)); try reflexivity; lia.
Qed.

(* all outcomes (with multiplicity) after k + e items: one entry per draw sequence
   (j_k, ..., j_{k+e-1}) with j_i in [0, i] *)
Fixpoint outcomes (k : N) (e : nat) : list (list N) :=
  match e with
  | O => [Nseq 0 (N.to_nat k)]
  | S e' => flat_map (fun r => map (fun j => rstepx k r (k + N.of_nat e') (N.of_nat j)) (seq 0 (N.to_nat k + e' + 1)))
                     (outcomes k e')
  end.
Definition outcomes_at (k : N) (n : nat) : list (list N) := outcomes k (n - N.to_nat k).

Definition memb (p : N) (r : list N) : bool := existsb (N.eqb p) r.
Definition count_containing (p : N) (L : list (list N)) : nat := length (filter (memb p) L).

Lemma memb_In p r : memb p r = true <-> In p r.
Proof.
  unfold memb. rewrite existsb_exists. split.
  - intros [x [Hx He]]. apply N.eqb_eq in He. subst. auto.
  - intros H. exists p. split; auto. apply N.eqb_refl.
Qed.

Lemma memb_false p r : memb p r = false <-> ~ In p r.
Proof. rewrite <- memb_In. destruct (memb p r); split; congruence. Qed.

(* number of draws j in [0,m) after which p is in the reservoir *)
Definition keep (K : nat) (r : list N) (i p : N) (m : nat) : nat :=
  length (filter (fun j => memb p (stepn K r i j)) (seq 0 m)).

Lemma filter_length_ext {A} (f g : A -> bool) l : (forall x, In x l -> f x = g x) -> length (filter f l) = length (filter g l).
Proof. induction l as [|x t IH]; simpl; intros H; auto. rewrite (H x) by auto. destruct (g x); simpl; rewrite IH; auto. Qed.

Lemma filter_ltb_seq K m : length (filter (fun j => j <? K)%nat (seq 0 m)) = Nat.min K m.
Proof.
  induction m as [|m IH]; [simpl; lia|].
  rewrite seq_S, filter_app, app_length, IH. simpl. destruct (Nat.ltb_spec m K); simpl; lia.
Qed.

Lemma In_upd_same {A} (l : list A) j v : (j < length l)%nat -> In v (upd l j v).
Proof. revert j; induction l as [|x t IH]; intros [|j] H; simpl in *; try lia; auto. right. apply IH. lia. Qed.

(* the new item: p = i, not yet in r *)
Lemma keep_new K r i m : length r = K -> ~ In i r -> keep K r i i m = Nat.min K m.
Proof.
  intros Hl Hn. unfold keep. rewrite <- filter_ltb_seq. apply filter_length_ext. intros j _.
  unfold stepn. destruct (Nat.ltb_spec j K).
  - apply memb_In. apply In_upd_same. lia.
  - apply memb_false. assumption.
Qed.

(* absent, and not the new one *)
Lemma keep_absent K r i p m : ~ In p r -> p <> i -> keep K r i p m = 0%nat.
Proof.
  intros Hn Hp. unfold keep. rewrite (filter_length_ext _ (fun _ => false)).
  - induction (seq 0 m); simpl; auto.
  - intros j _. apply memb_false. unfold stepn. destruct (j <? K)%nat; auto.
    intros H. apply In_upd in H. destruct H; congruence.
Qed.

(* upd keeps p unless it overwrites the (unique) slot holding p *)
Lemma In_upd_other (l : list N) j v p : NoDup l -> In p l -> p <> v -> (In p (upd l j v) <-> nth_error l j <> Some p).
Proof.
  revert j; induction l as [|x t IH]; intros j Hnd Hin Hpv.
  - inversion Hin.
  - inversion Hnd as [|? ? Hx Hnd']; subst. destruct j as [|j]; simpl.
    + split.
      * intros [H|H]; [congruence|]. intros E. inversion E; subst. contradiction.
      * intros H. destruct Hin as [E|Hin]; [subst; congruence | auto].
    + destruct Hin as [E|Hin].
      * subst. split; auto. intros _ E. apply nth_error_In in E. contradiction.
      * rewrite <- (IH j Hnd' Hin Hpv). split; [intros [E|H]; [subst; contradiction| exact H] | auto].
Qed.

Lemma index_unique (l : list N) p : NoDup l -> In p l ->
  exists jp, (jp < length l)%nat /\ nth_error l jp = Some p /\ forall j, nth_error l j = Some p -> j = jp.
Proof.
  intros Hnd Hin. apply In_nth_error in Hin. destruct Hin as [jp Hjp]. exists jp. split; [|split]; auto.
  - apply nth_error_Some. congruence.
  - intros j Hj. rewrite NoDup_nth_error in Hnd. apply Hnd; [apply nth_error_Some; congruence | congruence].
Qed.

Lemma count_neq_seq jp m : length (filter (fun j => negb (j =? jp)%nat) (seq 0 m)) = if (jp <? m)%nat then (m - 1)%nat else m.
Proof.
  induction m as [|m IH]; [reflexivity|]. rewrite seq_S, filter_app, app_length, IH. cbn [filter Nat.add].
  destruct (Nat.eqb_spec m jp); cbn [negb length].
  - subst. rewrite Nat.ltb_irrefl. destruct (Nat.ltb_spec jp (S jp)); lia.
  - destruct (Nat.ltb_spec jp m); destruct (Nat.ltb_spec jp (S m)); lia.
Qed.

Lemma keep_present K r i p m : length r = K -> NoDup r -> In p r -> p <> i -> (K <= m)%nat -> keep K r i p m = (m - 1)%nat.
Proof.
  intros Hl Hnd Hin Hp Hkm. destruct (index_unique r p Hnd Hin) as [jp [Hjp [Hn Hu]]].
  unfold keep. rewrite (filter_length_ext _ (fun j => negb (j =? jp)%nat)).
  - rewrite count_neq_seq. destruct (Nat.ltb_spec jp m); lia.
  - intros j _. unfold stepn. destruct (Nat.ltb_spec j K).
    + destruct (Nat.eqb_spec j jp); simpl.
      * subst j. apply memb_false. rewrite (In_upd_other r jp i p Hnd Hin Hp). tauto.
      * apply memb_In. rewrite (In_upd_other r j i p Hnd Hin Hp). intros E. apply Hu in E. contradiction.
    + destruct (Nat.eqb_spec j jp); simpl; [lia|]. apply memb_In. assumption.
Qed.

(* invariants of all outcomes *)
Definition good (K : nat) (n : N) (r : list N) := length r = K /\ NoDup r /\ forall x, In x r -> x < n.

Lemma good_step K n r j : good K n r -> good K (n + 1) (stepn K r n j).
Proof.
  intros [Hl [Hnd Hlt]]. unfold stepn. destruct (j <? K)%nat.
  - split; [rewrite upd_length; auto|]. split.
    + apply NoDup_upd; auto. intros H. apply Hlt in H. lia.
    + intros x H. apply In_upd in H. destruct H; [lia | apply Hlt in H; lia].
  - split; auto. split; auto. intros x H. apply Hlt in H. lia.
Qed.

Lemma outcomes_good k e r : In r (outcomes k e) -> good (N.to_nat k) (k + N.of_nat e) r.
Proof.
  revert r; induction e as [|e IH]; cbn [outcomes]; intros r H.
  - destruct H as [<-|[]]. split; [apply Nseq_length|]. split; [apply Nseq_NoDup|]. intros x Hx. apply Nseq_In in Hx. lia.
  - apply in_flat_map in H. destruct H as [r0 [H0 H]]. apply in_map_iff in H. destruct H as [j [<- _]].
    rewrite rstepx_stepn. replace (k + N.of_nat (S e)) with (k + N.of_nat e + 1) by lia. apply good_step. auto.
Qed.

Lemma cnt_flat_map p (F : list N -> list (list N)) L :
  count_containing p (flat_map F L) = list_sum (map (fun r => count_containing p (F r)) L).
Proof. unfold count_containing. induction L as [|r t IH]; simpl; auto. rewrite filter_app, app_length, IH. reflexivity. Qed.

Lemma cnt_map_step k r i p m :
  count_containing p (map (fun j => rstepx k r i (N.of_nat j)) (seq 0 m)) = keep (N.to_nat k) r i p m.
Proof.
  unfold count_containing, keep. induction (seq 0 m) as [|j t IH]; simpl; auto.
  rewrite rstepx_stepn. destruct (memb p (stepn (N.to_nat k) r i j)); simpl; rewrite IH; auto.
Qed.

Lemma length_flat_map_const {A B} (F : A -> list B) (L : list A) c :
  (forall a, In a L -> length (F a) = c) -> length (flat_map F L) = (c * length L)%nat.
Proof. induction L as [|a t IH]; simpl; intros H; [lia|]. rewrite app_length, IH, (H a) by auto. lia. Qed.

Lemma outcomes_length_S k e : length (outcomes k (S e)) = ((N.to_nat k + e + 1) * length (outcomes k e))%nat.
Proof. cbn [outcomes]. apply length_flat_map_const. intros a _. rewrite map_length, seq_length. reflexivity. Qed.

Lemma filter_length_le {A} (f : A -> bool) l : (length (filter f l) <= length l)%nat.
Proof. induction l as [|x t IH]; simpl; [lia|]. destruct (f x); simpl; lia. Qed.

Lemma list_sum_split p (L : list (list N)) (f : list N -> nat) a b :
  (forall r, In r L -> f r = if memb p r then a else b) ->
  (list_sum (map f L) + b * count_containing p L = a * count_containing p L + b * length L)%nat.
Proof.
  unfold count_containing. induction L as [|r t IH]; intros H; [simpl; lia|].
  cbn [map list_sum fold_right filter length]. rewrite (H r) by (left; reflexivity).
  specialize (IH (fun r0 Hr0 => H r0 (or_intror Hr0))).
  unfold list_sum in IH. destruct (memb p r); cbn [length]; nia.
Qed.

(** Over ALL draw sequences j_i in [0,i], k <= i < k + e, every stream position p < k + e is in the
    final reservoir in exactly the fraction k / (k + e) of the outcomes. *)
Theorem reservoir_uniform_exact k e p : 1 <= k -> p < k + N.of_nat e ->
  (count_containing p (outcomes k e) * (N.to_nat k + e) = N.to_nat k * length (outcomes k e))%nat.
Proof.
  intros Hk. set (K := N.to_nat k). assert (HK : (1 <= K)%nat) by (unfold K; lia).
  revert p. induction e as [|e IH]; intros p Hp.
  - cbn [outcomes]. unfold count_containing. cbn [filter].
    assert (memb p (Nseq 0 (N.to_nat k)) = true) as ->. { apply memb_In, Nseq_In. lia. } simpl. lia.
  - rewrite outcomes_length_S. fold K. cbn [outcomes]. fold K. rewrite cnt_flat_map.
    rewrite (map_ext _ (fun r => keep K r (k + N.of_nat e) p (K + e + 1))) by (intros; apply cnt_map_step).
    set (i := k + N.of_nat e) in *.
    destruct (N.eq_dec p i) as [->|Hne].
    + (* the new item *)
      assert (HS : list_sum (map (fun r => keep K r i i (K + e + 1)) (outcomes k e)) = (K * length (outcomes k e))%nat).
      { pose proof (list_sum_split i (outcomes k e) (fun r => keep K r i i (K + e + 1)) K K) as HS.
        assert (count_containing i (outcomes k e) <= length (outcomes k e))%nat by apply filter_length_le.
        enough (list_sum (map (fun r => keep K r i i (K + e + 1)) (outcomes k e)) + K * count_containing i (outcomes k e) =
                K * count_containing i (outcomes k e) + K * length (outcomes k e))%nat by lia.
        apply HS. intros r Hr. destruct (outcomes_good _ _ _ Hr) as [Hl [Hnd Hlt]]. fold K in Hl. fold i in Hlt.
        rewrite keep_new; auto. { destruct (memb i r); lia. } intros Hin. apply Hlt in Hin. lia. }
      rewrite HS. nia.
    + specialize (IH p ltac:(lia)).
      assert (HS' : list_sum (map (fun r => keep K r i p (K + e + 1)) (outcomes k e)) = ((K + e) * count_containing p (outcomes k e))%nat).
      { pose proof (list_sum_split p (outcomes k e) (fun r => keep K r i p (K + e + 1)) (K + e)%nat 0%nat) as HS.
        rewrite Nat.mul_0_l, Nat.add_0_r, Nat.add_0_r in HS. apply HS.
        intros r Hr. destruct (outcomes_good _ _ _ Hr) as [Hl [Hnd Hlt]]. fold K in Hl.
        destruct (memb p r) eqn:E.
        -- apply memb_In in E. rewrite keep_present; auto; lia.
        -- apply memb_false in E. apply keep_absent; auto. }
      rewrite HS'. nia.
Qed.

(** C05, exact part, as a statement about n items: for k <= n (the crate runs Algorithm R exactly
    for k <= n <= 4k + 1, see [model_outcome_in_outcomes] / [outcomes_realisable] below). *)
Theorem reservoir_uniform_at k n p : 1 <= k -> (N.to_nat k <= n)%nat -> p < N.of_nat n ->
  (count_containing p (outcomes_at k n) * n = N.to_nat k * length (outcomes_at k n))%nat.
Proof.
  intros Hk Hn Hp. unfold outcomes_at.
  pose proof (reservoir_uniform_exact k (n - N.to_nat k) p Hk ltac:(lia)) as H.
  replace (N.to_nat k + (n - N.to_nat k))%nat with n in H by lia. exact H.
Qed.

(** ** Connection of the enumeration to the model *)

Lemma res_run_from_app xs ys : forall s ws,
  res_run_from s (xs ++ ys) ws =
  match res_run_from s xs ws with Some (s1, ws1) => res_run_from s1 ys ws1 | None => None end.
Proof.
  induction xs as [|x t IH]; intros s ws; cbn [app res_run_from]; [reflexivity|].
  destruct (res_add s x ws) as [[[s1 ws1] a]|]; [apply IH | reflexivity].
Qed.

Lemma res_run_from_app_words xs ex : forall s ws s' ws',
  res_run_from s xs ws = Some (s', ws') -> res_run_from s xs (ws ++ ex) = Some (s', ws' ++ ex).
Proof.
  induction xs as [|x t IH]; intros s ws s' ws' H; cbn [res_run_from] in *.
  - inversion H; reflexivity.
  - destruct (res_add s x ws) as [[[s1 ws1] a]|] eqn:E; [|discriminate].
    rewrite (res_add_app _ _ _ _ _ _ ex E). apply IH. exact H.
Qed.

Lemma Nseq_S s n : Nseq s (S n) = Nseq s n ++ [s + N.of_nat n].
Proof.
  revert s; induction n as [|n IH]; intros s.
  - cbn. rewrite N.add_0_r. reflexivity.
  - change (Nseq s (S (S n))) with (s :: Nseq (s + 1) (S n)). rewrite IH. cbn [Nseq app].
    replace (s + 1 + N.of_nat n) with (s + N.of_nat (S n)) by lia. reflexivity.
Qed.

(* the connection lemma, read from a successful add in phase 2 (k <= i <= 4k):
   the reservoir changes exactly by the decoded draw j = gen_range_incl 0 i, and j <= i *)
Lemma res_add_phase2_Some s x ws s' ws' a : res_add s x ws = Some (s', ws', a) ->
  inv s -> words64 ws -> rk s <= ri s -> ri s <= 4 * rk s ->
  exists j ws1, gen_range_incl 0 (ri s) ws = Some (j, ws1) /\ j <= ri s /\ rres s' = rstepx (rk s) (rres s) x j.
Proof.
  intros H Hi Hw H1 H2.
  destruct (gen_range_incl 0 (ri s) ws) as [[j ws1]|] eqn:Eg.
  - exists j, ws1. destruct (res_add_phase2 s x ws j ws1 Hi Hw H1 H2 Eg) as [Hj [A B]].
    split; [reflexivity|]. split; [exact Hj|].
    destruct (N.eq_dec (ri s) (4 * rk s)) as [E|E].
    + destruct (draw_gap (rk s) (ri s) ws1) as [[[g am] ws2]|] eqn:Ed.
      * rewrite (B E _ _ _ eq_refl) in H. inversion H; subst; reflexivity.
      * exfalso. revert H. unfold res_add. cbv zeta.
        destruct (N.ltb_spec (ri s) (rk s)); [lia|]. destruct (N.leb_spec (ri s) (4 * rk s)); [|lia].
        rewrite Eg. destruct (if j <? rk s then setN (rres s) j x else Some (rres s)); [|discriminate].
        destruct (N.eqb_spec (ri s) (4 * rk s)); [|lia]. rewrite Ed. discriminate.
    + rewrite (A ltac:(lia)) in H. inversion H; subst; reflexivity.
  - exfalso. revert H. unfold res_add. cbv zeta.
    destruct (N.ltb_spec (ri s) (rk s)); [lia|]. destruct (N.leb_spec (ri s) (4 * rk s)); [|lia].
    rewrite Eg. discriminate.
Qed.

(** Soundness of the enumeration: whatever the RNG words, the reservoir the model holds after
    n = k + e <= 4k + 1 adds (items = their stream positions) is one of the enumerated outcomes. *)
Theorem model_outcome_in_outcomes k e : forall ws s ws',
  res_run k (Nseq 0 (N.to_nat k + e)) ws = Some (s, ws') -> words64 ws -> N.of_nat e <= 3 * k + 1 ->
  In (rres s) (outcomes k e).
Proof.
  induction e as [|e IH]; intros ws s ws' H Hw He.
  - apply res_run_valid in H. destruct H as [_ [_ [_ [_ [_ [Hp _]]]]]].
    rewrite Nseq_length in Hp. rewrite Hp by lia. rewrite Nat.add_0_r. left. reflexivity.
  - replace (N.to_nat k + S e)%nat with (S (N.to_nat k + e)) in H by lia. rewrite Nseq_S in H.
    unfold res_run in H. destruct (res_new k) as [s0|] eqn:E0; [|discriminate].
    rewrite res_run_from_app in H.
    destruct (res_run_from s0 (Nseq 0 (N.to_nat k + e)) ws) as [[s1 ws1]|] eqn:E1; [|discriminate].
    assert (R1 : res_run k (Nseq 0 (N.to_nat k + e)) ws = Some (s1, ws1)) by (unfold res_run; rewrite E0; exact E1).
    pose proof (IH _ _ _ R1 Hw ltac:(lia)) as Hin.
    apply res_run_valid in R1. destruct R1 as [Hk [Hrk [_ [Hri [_ [_ [_ [_ [Hinv Hsuf]]]]]]]]].
    rewrite Nseq_length in Hri.
    cbn [res_run_from] in H. destruct (res_add s1 (0 + N.of_nat (N.to_nat k + e)) ws1) as [[[s2 ws2] a]|] eqn:E2; [|discriminate].
    inversion H; subst s2 ws2.
    apply res_add_phase2_Some in E2; [|exact Hinv|eapply suffix_words64; eauto|lia|lia].
    destruct E2 as [j [ws3 [_ [Hj Er]]]]. rewrite Er, Hrk.
    cbn [outcomes]. apply in_flat_map. exists (rres s1). split; [exact Hin|].
    apply in_map_iff. exists (N.to_nat j). split.
    + rewrite N2Nat.id. f_equal. lia.
    + apply in_seq. lia.
Qed.

(* fill-up needs no RNG words *)
Lemma res_run_from_fill xs : forall s ws, ri s + lenN xs <= rk s ->
  exists s', res_run_from s xs ws = Some (s', ws) /\ rk s' = rk s.
Proof.
  induction xs as [|x t IH]; intros s ws H; cbn [res_run_from]; [eauto|].
  unfold lenN in H. cbn [length] in H. unfold res_add. cbv zeta.
  destruct (N.ltb_spec (ri s) (rk s)); [|lia].
  destruct (IH {| rk := rk s; rres := rres s ++ [x]; ri := ri s + 1; rskip := rskip s |} ws) as [s' [E K]].
  - cbn. unfold lenN. lia.
  - exists s'. split; [exact E | exact K].
Qed.

(* one Algorithm-R step with a prescribed draw j is realised by suitable RNG words *)
Lemma step_realisable s x j : inv s -> rk s <= ri s -> ri s <= 4 * rk s -> ri s + 1 < 2 ^ 64 -> j <= ri s ->
  exists ex s' a, words64 ex /\ res_add s x ex = Some (s', [], a) /\ rres s' = rstepx (rk s) (rres s) x j.
Proof.
  intros Hi H1 H2 H3 Hj. destruct (gen_range_incl_decode (ri s) j H3 Hj) as [v [Hv Ev]].
  destruct (N.eq_dec (ri s) (4 * rk s)) as [E|E].
  - assert (Hw : words64 [v; 0]) by (apply Forall_cons; [exact Hv|]; apply Forall_cons; [lia | apply Forall_nil]).
    destruct (res_add_phase2 s x [v; 0] j [0] Hi Hw H1 H2 (Ev [0])) as [_ [_ B]].
    destruct (draw_gap (rk s) (ri s) [0]) as [[[g am] ws2]|] eqn:Ed.
    + pose proof (draw_gap_Some _ _ _ _ _ _ Ed) as [w [Ew _]]. inversion Ew; subst w ws2.
      eexists [v; 0], _, am. split; [exact Hw|]. split; [apply (B E _ _ _ eq_refl) | reflexivity].
    + destruct Hi as [Hk _]. apply draw_gap_None in Ed; [discriminate | lia | lia | apply Forall_cons; [lia | apply Forall_nil]].
  - assert (Hw : words64 [v]) by (apply Forall_cons; [exact Hv | apply Forall_nil]).
    destruct (res_add_phase2 s x [v] j [] Hi Hw H1 H2 (Ev [])) as [_ [A _]].
    eexists [v], _, false. split; [exact Hw|]. split; [apply A; lia | reflexivity].
Qed.

(** Completeness of the enumeration: every enumerated outcome (every draw sequence) is produced by
    the model for suitable 64-bit RNG words, up to n = k + e <= 4k + 1 items. *)
Theorem outcomes_realisable k e : 1 <= k -> 4 * k + 2 < 2 ^ 64 -> N.of_nat e <= 3 * k + 1 ->
  forall r, In r (outcomes k e) ->
  exists ws s, words64 ws /\ res_run k (Nseq 0 (N.to_nat k + e)) ws = Some (s, []) /\ rres s = r.
Proof.
  intros Hk Hb. induction e as [|e IH]; intros He r Hr.
  - cbn [outcomes] in Hr. destruct Hr as [<-|[]]. rewrite Nat.add_0_r.
    assert (E0 : res_new k = Some {| rk := k; rres := []; ri := 0; rskip := 0 |}).
    { unfold res_new. destruct (N.ltb_spec 0 k); [reflexivity | lia]. }
    destruct (res_run_from_fill (Nseq 0 (N.to_nat k)) {| rk := k; rres := []; ri := 0; rskip := 0 |} []) as [s [E _]].
    { cbn. unfold lenN. rewrite Nseq_length. lia. }
    assert (R : res_run k (Nseq 0 (N.to_nat k)) [] = Some (s, [])) by (unfold res_run; rewrite E0; exact E).
    exists [], s. split; [constructor|]. split; [exact R|].
    apply res_run_valid in R. destruct R as [_ [_ [_ [_ [_ [Hp _]]]]]]. apply Hp. rewrite Nseq_length. lia.
  - cbn [outcomes] in Hr. apply in_flat_map in Hr. destruct Hr as [r0 [Hr0 Hr]].
    apply in_map_iff in Hr. destruct Hr as [j [<- Hj]]. apply in_seq in Hj.
    destruct (IH ltac:(lia) r0 Hr0) as [ws0 [s0 [Hw0 [R0 <-]]]].
    pose proof (res_run_valid _ _ _ _ _ R0) as [_ [Hrk [_ [Hri [_ [_ [_ [_ [Hinv _]]]]]]]]].
    rewrite Nseq_length in Hri.
    destruct (step_realisable s0 (k + N.of_nat e) (N.of_nat j) Hinv ltac:(lia) ltac:(lia) ltac:(lia) ltac:(lia))
      as [ex [s' [a [Hex [Ea Er]]]]].
    exists (ws0 ++ ex), s'. split; [apply words64_app; split; assumption|]. split; [|rewrite Er, Hrk; reflexivity].
    replace (N.to_nat k + S e)%nat with (S (N.to_nat k + e)) by lia. rewrite Nseq_S.
    unfold res_run in *. destruct (res_new k) as [sn|]; [|discriminate].
    rewrite res_run_from_app, (res_run_from_app_words _ ex _ _ _ _ R0). cbn [app res_run_from].
    replace (0 + N.of_nat (N.to_nat k + e)) with (k + N.of_nat e) by lia. rewrite Ea. reflexivity.
Qed.

(** ** Lemire's sampler is exactly uniform on accepted words:
    for every j < range the accepted 64-bit words decoding to j form an interval of
    exactly 2^lz words (lz = leading zeros of range), the same number for every j. *)
Theorem lemire_accept_iff range j v : 0 < range < 2 ^ 64 -> j < range ->
  let c := (j * 2 ^ 64 + range - 1) / range in
  (v * range mod 2 ^ 64 <= lemire_zone range /\ v * range / 2 ^ 64 = j) <-> c <= v < c + 2 ^ lz64 range.
Proof.
  intros Hr Hj c. destruct (lemire_zone_eq range Hr) as [Ez [Hz1 Hz2]]. rewrite Ez.
  set (M := 2 ^ 64) in *. assert (HM : 0 < M) by (unfold M; lia).
  set (L := 2 ^ lz64 range) in *.
  pose proof (N.div_mod (j * M + range - 1) range ltac:(lia)) as Ed. fold c in Ed.
  pose proof (N.mod_lt (j * M + range - 1) range ltac:(lia)) as Hm.
  set (m := (j * M + range - 1) mod range) in *.
  assert (C1 : M * j <= c * range) by lia. assert (C2 : c * range < M * j + range) by lia.
  clearbody c m. clear Ed Hm. set (p := v * range) in *.
  split.
  - intros [Hlo Hhi]. pose proof (N.div_mod p M ltac:(lia)) as Ep. rewrite Hhi in Ep.
    split.
    + destruct (N.le_gt_cases c v) as [G|G]; [exact G|]. exfalso.
      assert ((v + 1) * range <= c * range) by (apply N.mul_le_mono_r; lia). unfold p in *. lia.
    + destruct (N.le_gt_cases (c + L) v) as [G|G]; [|exact G]. exfalso.
      assert ((c + L) * range <= v * range) by (apply N.mul_le_mono_r; lia). unfold p in *. lia.
  - intros [G1 G2].
    assert (c * range <= v * range) by (apply N.mul_le_mono_r; lia).
    assert ((v + 1) * range <= (c + L) * range) by (apply N.mul_le_mono_r; lia).
    assert (Ep : p = M * j + (p - M * j)) by (unfold p; lia).
    assert (Hlt : p - M * j < M) by (unfold p; lia).
    rewrite <- (N.div_unique p M j (p - M * j) Hlt Ep), <- (N.mod_unique p M j (p - M * j) Hlt Ep).
    split; [unfold p; lia | reflexivity].
Qed.

(** ** The gap is Geometric(p) when u is uniform: gap >= j  iff  u <= (1-p)^j *)
Lemma pow_ratio_mono num den c T a b : 0 < den -> num <= den -> a <= b ->
  c * den ^ b <= num ^ b * T -> c * den ^ a <= num ^ a * T.
Proof.
  intros Hd Hnd Hab H. replace b with (a + (b - a)) in H by lia. set (t := b - a) in *.
  rewrite (N.pow_add_r den a t), (N.pow_add_r num a t) in H.
  assert (Ht : num ^ t <= den ^ t) by (apply N.pow_le_mono_l; exact Hnd).
  assert (Hp : 0 < den ^ t) by (apply pow_pos_N; exact Hd).
  set (A := num ^ a) in *. set (B := den ^ a) in *.
  assert (A * T * num ^ t <= A * T * den ^ t) by (apply N.mul_le_mono_l; exact Ht).
  apply N.mul_le_mono_pos_r with (p := den ^ t); [exact Hp | lia].
Qed.

Theorem gap_fix_tail k i v g j : gap_fix k i v = Some (g, false) ->
  let den := i + 2 in
  j <= g <-> (2 ^ 52 - v) * den ^ j <= (den - k) ^ j * 2 ^ 52.
Proof.
  intros H den. apply gap_fix_law in H. fold den in H. destruct H as [Ha Hb].
  assert (Hd : 0 < den) by (unfold den; lia). assert (Hn : den - k <= den) by lia.
  split.
  - intros Hj. eapply pow_ratio_mono; eauto.
  - intros Hj. destruct (N.le_gt_cases j g) as [G|G]; [exact G|]. exfalso.
    assert ((2 ^ 52 - v) * den ^ (g + 1) <= (den - k) ^ (g + 1) * 2 ^ 52) by (eapply (pow_ratio_mono _ _ _ _ (g + 1) j); eauto; lia).
    lia.
Qed.

(* ------------------------------------------------------------------------- *)
(** * Examples (vm_compute): the hypotheses are satisfiable, all phases reached *)
(* ------------------------------------------------------------------------- *)

Lemma words64_dec ws : forallb (fun w => w <? 2 ^ 64) ws = true -> words64 ws.
Proof.
  intros H. apply Forall_forall. intros w Hw. rewrite forallb_forall in H. apply H in Hw.
  apply N.ltb_lt. exact Hw.
Qed.

(* per-add trace: (reservoir, i, skip, words left, ambiguous) *)
Fixpoint res_trace (s : reservoir) (xs ws : list N) : list (list N * N * N * nat * bool) :=
  match xs with
  | [] => []
  | x :: t => match res_add s x ws with
              | Some (s', ws', a) => (rres s', ri s', rskip s', length ws', a) :: res_trace s' t ws'
              | None => []
              end
  end.

Definition ex_words : list N := map (fun i => u64 (i * 11400714819323198485)) (Nseq 1 60).
Definition ex_words' : list N := map (fun i => i * 7919 * 2 ^ 40 + 12345) (Nseq 1 60).

Example ex_words_64 : words64 ex_words /\ words64 ex_words'.
Proof. split; apply words64_dec; vm_compute; reflexivity. Qed.

(* k = 2, 12 adds of the positions 0..11: fill-up (i = 0,1), Algorithm R (i = 2..8, the add at
   i = 8 = 4k also draws the first gap: skip = 11), gap sampling (i = 9, 10 skipped without
   consuming words; i = 11 = skip replaces a slot and draws the next gap: skip = 18). *)
Example ex_trace12 :
  res_trace {| rk := 2; rres := []; ri := 0; rskip := 0 |} (Nseq 0 12) ex_words =
  [([0], 1, 0, 60%nat, false); ([0; 1], 2, 0, 60%nat, false);
   ([2; 1], 3, 0, 58%nat, false); ([2; 1], 4, 0, 57%nat, false);
   ([2; 1], 5, 0, 56%nat, false); ([5; 1], 6, 0, 55%nat, false);
   ([5; 1], 7, 0, 53%nat, false); ([5; 1], 8, 0, 51%nat, false);
   ([5; 1], 9, 11, 48%nat, false); ([5; 1], 10, 11, 48%nat, false);
   ([5; 1], 11, 11, 48%nat, false); ([11; 1], 12, 18, 46%nat, false)].
Proof. vm_compute. reflexivity. Qed.

Example ex_run12 : exists ws', res_run 2 (Nseq 0 12) ex_words = Some ({| rk := 2; rres := [11; 1]; ri := 12; rskip := 18 |}, ws')
                               /\ length ws' = 46%nat.
Proof. eexists. split; vm_compute; reflexivity. Qed.

Example ex_run12' : exists ws', res_run 2 (Nseq 0 12) ex_words' = Some ({| rk := 2; rres := [11; 1]; ri := 12; rskip := 12 |}, ws').
Proof. eexists. vm_compute. reflexivity. Qed.

(* 30 adds of arbitrary (here: shifted) items: several replace/skip rounds in phase 3 *)
Example ex_run30 : exists ws', res_run 2 (Nseq 100 30) ex_words = Some ({| rk := 2; rres := [129; 125]; ri := 30; rskip := 47 |}, ws').
Proof. eexists. vm_compute. reflexivity. Qed.

(* [res_run_valid] applies to it *)
Example ex_run30_valid : forall s ws', res_run 2 (Nseq 100 30) ex_words = Some (s, ws') ->
  length (rres s) = 2%nat /\ ri s = 30 /\ NoDup (rres s) /\ incl (rres s) (Nseq 100 30).
Proof.
  intros s ws' H. apply res_run_valid in H. destruct H as [_ [_ [Hl [Hi [_ [_ [Hin [Hnd _]]]]]]]].
  rewrite Nseq_length in *. split; [exact Hl|]. split; [exact Hi|]. split; [apply Hnd, Nseq_NoDup | exact Hin].
Qed.

(* out of words: empty list, and a word rejected by Lemire's test (range 3: zone = 3*2^62 - 1) *)
Example ex_out_of_words :
  let s := {| rk := 2; rres := [0; 1]; ri := 2; rskip := 0 |} in
  inv s /\ res_add s 2 [] = None /\ res_add s 2 [2 ^ 62] = None /\ all_rejected 0 2 [2 ^ 62] /\
  (exists s', res_add s 2 [2 ^ 62; 2 ^ 63] = Some (s', [], false) /\ rres s' = [0; 2]) /\
  (exists s', res_add s 2 [0] = Some (s', [], false) /\ rres s' = [2; 1]).
Proof.
  cbv zeta. split; [split; vm_compute; [discriminate | reflexivity]|].
  split; [vm_compute; reflexivity|]. split; [vm_compute; reflexivity|].
  split; [vm_compute; repeat constructor|].
  split; eexists; split; vm_compute; reflexivity.
Qed.

(* extreme words: 0 is accepted and decodes to 0; 2^64 - 1 is rejected (lo = 2^64 - range > zone);
   the largest accepted word decodes to the largest value, still in range *)
Example ex_extreme_draws :
  gen_range_incl 0 8 [0] = Some (0, []) /\ gen_range_incl 0 8 [2 ^ 64 - 1] = None /\
  gen_range_incl 0 8 [(8 * 2 ^ 64 + 8) / 9 + 2 ^ 60 - 1] = Some (8, []) /\
  gen_range_incl 0 8 [(8 * 2 ^ 64 + 8) / 9 + 2 ^ 60] = None /\
  gen_range 0 2 [2 ^ 64 - 2 ^ 62 - 1] = Some (1, []) /\ gen_range 0 2 [2 ^ 64 - 2 ^ 62] = None /\
  gen_unit52 [2 ^ 64 - 1] = Some (2 ^ 52 - 1, []).
Proof. repeat split; vm_compute; reflexivity. Qed.

(* the gap: u = 1/2, p = 2/10: 0.8^4 < 0.5 <= 0.8^3; smallest u = 2^-52 needs 161 of the 202 fuel;
   u = 1/2, 1 - p = 1/2 sits exactly on a boundary: ambiguous *)
Example ex_gap : gap_fix 2 8 (2 ^ 51) = Some (3, false) /\ gap_fix 2 8 (2 ^ 52 - 1) = Some (161, false) /\
                 gap_fix 2 8 0 = Some (0, false) /\ gap_fix 1 0 (2 ^ 51) = Some (0, true).
Proof. repeat split; vm_compute; reflexivity. Qed.

(* the two former float-discrepancy witnesses (see the header) are now flagged ambiguous
   (one VM evaluation each at Qed: ~18 s and ~77 s) *)
(* ex_gap_witness1 (18 s under vm_compute, minutes under coqchk) lives in Proofs/ReservoirExamples.v *)
(* a second witness, gap_fix 1 20163 4433315291362389 = Some (83885, true), takes 77 s to evaluate and is left out of the build *)

Example ex_gap_law : (10 - 2) ^ (3 + 1) * 2 ^ 52 < (2 ^ 52 - 2 ^ 51) * 10 ^ (3 + 1) /\
                     (2 ^ 52 - 2 ^ 51) * 10 ^ 3 <= (10 - 2) ^ 3 * 2 ^ 52.
Proof. exact (gap_fix_law 2 8 (2 ^ 51) 3 (proj1 ex_gap)). Qed.

(* Lemire decode: range 10, draw 7 *)
Example ex_decode : let v := (7 * 2 ^ 64 + 10 - 1) / 10 in
  v < 2 ^ 64 /\ lemire_loop 0 10 (lemire_zone 10) [v] = Some (7, []).
Proof. cbv zeta. split; vm_compute; reflexivity. Qed.

(* exact counts: k = 2, n = 5: 60 draw sequences, each position in 24 = 60 * 2/5 of them *)
Example ex_outcomes : length (outcomes 2 3) = 60%nat /\
  map (fun p => count_containing p (outcomes 2 3)) [0; 1; 2; 3; 4] = [24; 24; 24; 24; 24]%nat.
Proof. split; vm_compute; reflexivity. Qed.

(* n = 4k + 1 = 5 for k = 1 is covered: 2*3*4*5 outcomes, each position in 24 = 120 / 5 of them *)
Example ex_outcomes_4k1 : length (outcomes_at 1 5) = 120%nat /\
  map (fun p => count_containing p (outcomes_at 1 5)) [0; 1; 2; 3; 4] = [24; 24; 24; 24; 24]%nat.
Proof. split; vm_compute; reflexivity. Qed.

Example ex_model_in_outcomes : In [5; 1] (outcomes 2 6).
Proof.
  assert (H : exists ws', res_run 2 (Nseq 0 (N.to_nat 2 + 6)) ex_words = Some ({| rk := 2; rres := [5; 1]; ri := 8; rskip := 0 |}, ws'))
    by (eexists; vm_compute; reflexivity).
  destruct H as [ws' H]. apply (model_outcome_in_outcomes 2 6 _ _ _ H (proj1 ex_words_64)). vm_compute. discriminate.
Qed.

Example ex_clear : res_new 2 = Some (res_clear {| rk := 2; rres := [11; 1]; ri := 12; rskip := 18 |}).
Proof. reflexivity. Qed.

(* ------------------------------------------------------------------------- *)
Print Assumptions lemire_in_range.
Print Assumptions gen_range_incl_in_range.
Print Assumptions gen_range_in_range.
Print Assumptions gen_unit52_lt.
Print Assumptions lemire_decode.
Print Assumptions lemire_accept_iff.
Print Assumptions gap_fix_law.
Print Assumptions gap_fix_tail.
Print Assumptions gap_law_unique.
Print Assumptions gap_fix_total.
Print Assumptions res_run_valid.
Print Assumptions res_run_positions.
Print Assumptions res_add_None.
Print Assumptions res_add_enough_words.
Print Assumptions res_run_never_panics.
Print Assumptions res_clear_fresh.
Print Assumptions res_add_phase2.
Print Assumptions res_add_phase2_Some.
Print Assumptions reservoir_uniform_exact.
Print Assumptions reservoir_uniform_at.
Print Assumptions model_outcome_in_outcomes.
Print Assumptions outcomes_realisable.
