(* Model/Hll.v — src/hyperloglog/mod.rs register side (add_hashed, merge, clear, constructor checks).
   count() is in Model/HllCount.v. Definitions only. *)
From PDS Require Export Model.Hashing.

Record hll := { hb : N; hregs : list N }.

(* mod.rs:129-143 with_registers_and_hash *)
Definition hll_of_registers (b : N) (regs : list N) : option hll :=
  if (4 <=? b) && (b <=? 18) && (lenN regs =? 2 ^ b) then Some {| hb := b; hregs := regs |} else None.
Definition hll_new (b : N) : option hll := hll_of_registers b (repeat 0 (N.to_nat (2 ^ b))).

(* mod.rs:184-199 : w = h >> b ; j = h - (w << b) ; p = leading_zeros(w) + 1 - b ;
   leading_zeros of a 64-bit word w is 64 - N.size w. *)
Definition hll_rank (b h : N) : N := 64 - N.size (N.shiftr h b) + 1 - b.
Definition hll_index (b h : N) : N := h - N.shiftl (N.shiftr h b) b.
Definition hll_add_hashed (s : hll) (h : N) : option hll :=
  let j := hll_index (hb s) h in
  match getN (hregs s) j with
  | None => None
  | Some old => Some {| hb := hb s; hregs := upd (hregs s) (N.to_nat j) (N.max old (hll_rank (hb s) h)) |}
  end.

Section Hll.
Variable H : hashfn.
(* mod.rs:179-182 : add(obj) = add_hashed(buildhasher.hash_one(obj)) *)
Definition hll_add (s : hll) (x : N) : option hll := hll_add_hashed s (H None (Some x)).
End Hll.

Fixpoint maxl (a b : list N) : list N :=
  match a, b with x :: a', y :: b' => N.max x y :: maxl a' b' | _, _ => [] end.
(* mod.rs:329-347 *)
Definition hll_merge (a b : hll) : option hll :=
  if hb a =? hb b then Some {| hb := hb a; hregs := maxl (hregs a) (hregs b) |} else None.
Definition hll_clear (s : hll) : hll := {| hb := hb s; hregs := repeat 0 (length (hregs s)) |}.
Definition hll_is_empty (s : hll) : bool := forallb (N.eqb 0) (hregs s).
