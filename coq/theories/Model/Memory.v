(* Model/Memory.v — heap bytes held by each structure as a function of its configuration (property C11).
   helpers.rs:24-44 all_zero_intvector: ceil(element_bits * len / 64) blocks of 8 bytes ([alloc_blocks], Model/Cuckoo.v);
   fixedbitset: ceil(bits / 128) blocks of 16 bytes; HashIterBuilder keeps k shift values of 8 bytes; Vec<C> / Vec<u8>
   allocated with exact capacity by vec![..]. Definitions only. *)
From PDS Require Export Model.Cuckoo.

Definition cdiv (a b : N) : N := (a + b - 1) / b.
Definition bitset_bytes (bits : N) : N := 16 * cdiv bits 128.   (* fixedbitset 0.5: 128-bit SIMD blocks *)
Definition intvector_bytes (bits len : N) : N := 8 * alloc_blocks bits len.

Definition bloom_bytes (m k : N) : N := bitset_bytes m + 8 * k.
Definition cms_bytes (w d csize : N) : N := w * d * csize + 8 * d.
Definition hll_bytes (b : N) : N := 2 ^ b.
Definition cuckoo_bytes (bs nb l : N) : N := intvector_bytes l (nb * bs).
Definition qf_bytes (bq br : N) : N := 3 * bitset_bytes (2 ^ bq) + intvector_bytes br (2 ^ bq).
(* payload the documentation promises: slots x fingerprint bits, slots x (remainder bits + 3), m bits *)
Definition cuckoo_payload_bits (bs nb l : N) : N := nb * bs * l.
Definition qf_payload_bits (bq br : N) : N := 2 ^ bq * (br + 3).
