(* Model/TDigestQ.v — the exact-arithmetic (Q) instance of Model/TDigest.v and the K0 scale function.
   Definitions only. Theorems about the t-digest are stated over this instance; the PrimFloat
   instance (Exec/ExTDigest.v) is what runs against the crate. *)
From PDS Require Export Model.TDigest.
From Coq Require Export QArith Qminmax.

Definition Qltb (a b : Q) : bool := negb (Qle_bool b a).

Definition QNum : arith := {| aT := Q; azero := 0%Q; aone := 1%Q; ahalf := (1#2)%Q; aadd := Qplus; asub := Qminus; amul := Qmult;
                              adiv := Qdiv; aleb := Qle_bool; altb := Qltb; anan := 0%Q |}.
Definition qtd := td QNum.

(* K0, tdigest.rs:82-96 : f q = delta/2 * clamp(q,0,1) ; f_inv k = clamp(k,0,delta/2) * 2 / delta *)
Definition k0_f (delta q : Q) : Q := (delta / 2) * Qmax 0 (Qmin q 1).
Definition k0_finv (delta k : Q) : Q := Qmax 0 (Qmin k (delta / 2)) * 2 / delta.
Definition k0_lim (delta : Q) (n : N) (q0 : Q) : Q := k0_finv delta (k0_f delta q0 + 1).
