(* Model/CmsHeap.v — src/topk/cmsheap.rs (after repair F9). Definitions only.
   obj2count = association list; tree = list sorted ascending by (count, key) (BTreeSet order). *)
From PDS Require Export Model.Cms.

Record cmsheap := { hk : N; hcms : cms; ho2c : list (N * N); htree : list (N * N) (* (count, key) *) }.

Definition heap_new (k : N) (c : cms) : option cmsheap := if 0 <? k then Some {| hk := k; hcms := c; ho2c := []; htree := [] |} else None.

Definition entry_lt (a b : N * N) : bool := (fst a <? fst b) || ((fst a =? fst b) && (snd a <? snd b)).
Fixpoint tinsert (e : N * N) (t : list (N * N)) : list (N * N) :=
  match t with
  | [] => [e]
  | y :: r => if entry_lt e y then e :: t else if entry_lt y e then y :: tinsert e r else t  (* equal: already present *)
  end.
(* BTreeSet::remove uses Ord: (count, key) must match exactly *)
Fixpoint tremove (e : N * N) (t : list (N * N)) : list (N * N) :=
  match t with
  | [] => []
  | y :: r => if (fst e =? fst y) && (snd e =? snd y) then r else y :: tremove e r
  end.
Fixpoint ofind (m : list (N * N)) (x : N) : option N := match m with [] => None | (y, c) :: t => if x =? y then Some c else ofind t x end.
Fixpoint oset (m : list (N * N)) (x c : N) : list (N * N) :=
  match m with [] => [(x, c)] | (y, d) :: t => if x =? y then (y, c) :: t else (y, d) :: oset t x c end.
Fixpoint oremove (m : list (N * N)) (x : N) : list (N * N) :=
  match m with [] => [] | (y, d) :: t => if x =? y then t else (y, d) :: oremove t x end.

Section Heap.
Variable H : hashfn.
(* cmsheap.rs:153-211 ; None = panic (sketch counter overflow) *)
Definition heap_add (s : cmsheap) (x : N) : option cmsheap :=
  match cms_add_n H (hcms s) x 1 with
  | None => None
  | Some (count, c') =>
      let size := lenN (ho2c s) in
      match ofind (ho2c s) x with
      | Some n => Some {| hk := hk s; hcms := c'; ho2c := oset (ho2c s) x (n + 1);
                          htree := tinsert (n + 1, x) (tremove (n, x) (htree s)) |}
      | None =>
          if size <? hk s then
            Some {| hk := hk s; hcms := c'; ho2c := oset (ho2c s) x 1; htree := tinsert (1, x) (htree s) |}
          else
            match htree s with
            | [] => None   (* tree.iter().next().unwrap() *)
            | (mn, my) :: _ =>
                if mn <? count then
                  Some {| hk := hk s; hcms := c';
                          ho2c := oremove (oset (ho2c s) x count) my;
                          htree := tinsert (count, x) (tremove (mn, my) (htree s)) |}
                else Some {| hk := hk s; hcms := c'; ho2c := ho2c s; htree := htree s |}
            end
      end
  end.
End Heap.
Definition heap_iter (s : cmsheap) : list N := map snd (htree s).
Definition heap_is_empty (s : cmsheap) : bool := match ho2c s with [] => true | _ => false end.
Definition heap_clear (s : cmsheap) : cmsheap := {| hk := hk s; hcms := cms_clear (hcms s); ho2c := []; htree := [] |}.
