(* Model/Reservoir.v — src/reservoirsampling.rs (after repair F6). Definitions only.
   The gap floor(ln u / ln(1-p)) is a floating-point computation in the crate. Over the reals
   floor(ln u / ln(1-p)) = g  iff  (1-p)^(g+1) < u <= (1-p)^g, and both u = (2^52 - v)/2^52 and
   1-p = (i+2-k)/(i+2) are exact rationals, so the model finds g by a search with a 128-bit fixed-point
   enclosure [lo, hi] of (1-p)^(j+1); when u falls inside the enclosure widened by the relative margin
   (j+64)*2^-50 it answers "ambiguous" instead of guessing. The margin covers the crate's float rounding:
   the rounded 1-p moves the boundary (1-p)^j by about j*2^-53 relative, ln/division add a few 2^-52. *)
From PDS Require Export Model.Rand.

Definition FP : N := 2 ^ 128.
(* invariant: lo <= ((num/den)^(j+1)) * 2^128 <= hi.  Some (g, false): the gap is certainly g;
   Some (g, true): ambiguous at g (u within 2^-40 relative of a boundary); None: out of fuel *)
Fixpoint gap_search (num den U lo hi j : N) (fuel : nat) : option (N * bool) :=
  match fuel with
  | O => None
  | S f =>
      if hi + hi * (j + 64) / 2 ^ 50 + 1 <? U then Some (j, false)
      else if U <=? lo - lo * (j + 64) / 2 ^ 50 then gap_search num den U (lo * num / den) ((hi * num + den - 1) / den) (j + 1) f
      else Some (j, true)
  end.
(* reservoirsampling.rs:137-142 : p = k/(i+2) (i = items seen before this add), u = 1 - v/2^52 *)
Definition gap_fix (k i v : N) : option (N * bool) :=
  let den := i + 2 in
  let num := den - k in
  let U := (2 ^ 52 - v) * 2 ^ 76 in
  gap_search num den U (FP * num / den) ((FP * num + den - 1) / den) 0 (N.to_nat (40 * den / k + 2)).

Record reservoir := { rk : N; rres : list N; ri : N; rskip : N }.

Definition res_new (k : N) : option reservoir := if 0 <? k then Some {| rk := k; rres := []; ri := 0; rskip := 0 |} else None.

(* one add: item x, RNG words ws. Returns the new state, the unused words, and whether the gap
   computation was ambiguous (see above). None = panic / out of words. *)
Definition draw_gap (k i : N) (ws : list N) : option (N * bool * list N) :=
  match gen_unit52 ws with
  | None => None
  | Some (v, ws') => match gap_fix k i v with Some (g, amb) => Some (g, amb, ws') | None => None end
  end.
Definition res_add (s : reservoir) (x : N) (ws : list N) : option (reservoir * list N * bool) :=
  let k := rk s in let i := ri s in let t := 4 * k in
  if i <? k then
    Some ({| rk := k; rres := rres s ++ [x]; ri := i + 1; rskip := rskip s |}, ws, false)
  else if i <=? t then
    match gen_range_incl 0 i ws with
    | None => None
    | Some (j, ws1) =>
        match (if j <? k then setN (rres s) j x else Some (rres s)) with
        | None => None
        | Some r' =>
            if i =? t then
              match draw_gap k i ws1 with
              | None => None
              | Some (g, amb, ws2) => Some ({| rk := k; rres := r'; ri := i + 1; rskip := i + 1 + g |}, ws2, amb)
              end
            else Some ({| rk := k; rres := r'; ri := i + 1; rskip := rskip s |}, ws1, false)
        end
    end
  else if rskip s <=? i then
    match gen_range 0 k ws with
    | None => None
    | Some (j, ws1) =>
        match setN (rres s) j x with
        | None => None
        | Some r' =>
            match draw_gap k i ws1 with
            | None => None
            | Some (g, amb, ws2) => Some ({| rk := k; rres := r'; ri := i + 1; rskip := i + 1 + g |}, ws2, amb)
            end
        end
    end
  else Some ({| rk := k; rres := rres s; ri := i + 1; rskip := rskip s |}, ws, false).

Definition res_clear (s : reservoir) : reservoir := {| rk := rk s; rres := []; ri := 0; rskip := 0 |}.
Definition res_is_empty (s : reservoir) : bool := ri s =? 0.
