(* Model/Reservoir.v — src/reservoirsampling.rs (after repair F6). Definitions only.
   The gap floor(ln u / ln(1-p)) is a floating-point computation: the model takes the gap [g] as an
   input of the step (the correspondence check supplies the gap the implementation was observed to
   take and validates it against the real-number law with verified interval arithmetic, Exec/ExReservoir.v). *)
From PDS Require Export Model.Rand.

Record reservoir := { rk : N; rres : list N; ri : N; rskip : N }.

Definition res_new (k : N) : option reservoir := if 0 <? k then Some {| rk := k; rres := []; ri := 0; rskip := 0 |} else None.

(* one add: item x, RNG words ws, gap g (used only when a gap is drawn).
   Returns the new state, the unused words, and whether a gap was drawn (with the u numerator / 2^52). *)
Definition res_add (s : reservoir) (x : N) (ws : list N) (g : N) : option (reservoir * list N * option N) :=
  let k := rk s in let i := ri s in let t := 4 * k in
  if i <? k then
    Some ({| rk := k; rres := rres s ++ [x]; ri := i + 1; rskip := rskip s |}, ws, None)
  else if i <=? t then
    match gen_range_incl 0 i ws with
    | None => None
    | Some (j, ws1) =>
        match (if j <? k then setN (rres s) j x else Some (rres s)) with
        | None => None
        | Some r' =>
            if i =? t then
              match gen_unit52 ws1 with
              | None => None
              | Some (v, ws2) => Some ({| rk := k; rres := r'; ri := i + 1; rskip := i + 1 + g |}, ws2, Some v)
              end
            else Some ({| rk := k; rres := r'; ri := i + 1; rskip := rskip s |}, ws1, None)
        end
    end
  else if rskip s <=? i then
    match gen_range 0 k ws with
    | None => None
    | Some (j, ws1) =>
        match setN (rres s) j x with
        | None => None
        | Some r' =>
            match gen_unit52 ws1 with
            | None => None
            | Some (v, ws2) => Some ({| rk := k; rres := r'; ri := i + 1; rskip := i + 1 + g |}, ws2, Some v)
            end
        end
    end
  else Some ({| rk := k; rres := rres s; ri := i + 1; rskip := rskip s |}, ws, None).

Definition res_clear (s : reservoir) : reservoir := {| rk := rk s; rres := []; ri := 0; rskip := 0 |}.
Definition res_is_empty (s : reservoir) : bool := ri s =? 0.
