(* Model/SetSpec.v — src/filters/compat.rs: Filter for std::collections::HashSet (a duplicate-free list;
   iteration order is not observable through the Filter API). Definitions only. *)
From PDS Require Export Base.Util.
Definition hset := list N.
Definition hs_mem (s : hset) (x : N) : bool := existsb (N.eqb x) s.
(* compat.rs:21-23 : Ok(self.insert(obj.clone())) - true iff newly inserted *)
Definition hs_insert (s : hset) (x : N) : bool * hset := if hs_mem s x then (false, s) else (true, s ++ [x]).
(* compat.rs:25-28 : self.extend(other.iter().cloned()) *)
Definition hs_union (a b : hset) : hset := fold_left (fun s x => snd (hs_insert s x)) b a.
Definition hs_query := hs_mem.
Definition hs_len (s : hset) : N := lenN s.
Definition hs_is_empty (s : hset) : bool := match s with [] => true | _ => false end.
Definition hs_clear (s : hset) : hset := [].
