(* Model/HllSerde.v — src/hyperloglog/serde.rs : Serialize / Deserialize for HyperLogLog.
   A self-describing document is an ordered list of (field, value) pairs, as presented to
   [Visitor::visit_map] by a serde [MapAccess].  The BuildHasher payload is opaque ([N]).
   [None] = the deserializer returns [Err] (serde never panics here).  Definitions only. *)
From PDS Require Export Model.Hll.

(* Field identifiers after [FieldVisitor::visit_str] (serde.rs:53-64); any other key is [FUnknown]. *)
Inductive field := FRegisters | FB | FBuildhasher | FUnknown.
(* the value kinds a document can carry *)
Inductive value := VRegs (l : list N) | VNum (n : N) | VHasher (h : N).
Definition doc := list (field * value).

(* serde.rs:9-24 : serialize_struct("HyperLogLog", 3) ; registers, b, buildhasher in this order *)
Definition ser (s : hll) (h : N) : doc :=
  [(FRegisters, VRegs (hregs s)); (FB, VNum (hb s)); (FBuildhasher, VHasher h)].

(* the three [Option] locals of visit_map (serde.rs:104-106) *)
Record dstate := { d_regs : option (list N); d_b : option N; d_bh : option N }.
Definition dstate0 : dstate := {| d_regs := None; d_b := None; d_bh := None |}.

Definition is_some {X} (o : option X) : bool := match o with Some _ => true | None => false end.

(* [map.next_value::<Vec<u8>>()] : a sequence of numbers each fitting u8 ; anything else is an Err *)
Definition as_vec_u8 (v : value) : option (list N) :=
  match v with VRegs l => if forallb (fun r => r <? 256) l then Some l else None | _ => None end.
(* [map.next_value::<usize>()] *)
Definition as_usize (v : value) : option N := match v with VNum n => Some n | _ => None end.
(* [map.next_value::<B>()] *)
Definition as_hasher (v : value) : option N := match v with VHasher h => Some h | _ => None end.

(* serde.rs:107-128 : one iteration of [while let Some(key) = map.next_key()?] *)
Definition dstep (st : dstate) (kv : field * value) : option dstate :=
  let '(k, v) := kv in
  match k with
  | FRegisters =>
      if is_some (d_regs st) then None                              (* duplicate_field("registers") *)
      else do r <- as_vec_u8 v; Some {| d_regs := Some r; d_b := d_b st; d_bh := d_bh st |}
  | FB =>
      if is_some (d_b st) then None                                 (* duplicate_field("b") *)
      else do n <- as_usize v; Some {| d_regs := d_regs st; d_b := Some n; d_bh := d_bh st |}
  | FBuildhasher =>
      if is_some (d_bh st) then None                                (* duplicate_field("buildhasher") *)
      else do h <- as_hasher v; Some {| d_regs := d_regs st; d_b := d_b st; d_bh := Some h |}
  | FUnknown => None                                                (* unknown_field *)
  end.

Fixpoint dloop (st : dstate) (d : doc) : option dstate :=
  match d with
  | [] => Some st
  | kv :: r => do st' <- dstep st kv; dloop st' r
  end.

(* serde.rs:129-153 : missing_field checks, then the two validations of with_registers_and_hash *)
Definition dfinish (st : dstate) : option (hll * N) :=
  do registers <- d_regs st;                                         (* missing_field("registers") *)
  do b <- d_b st;                                                    (* missing_field("b") *)
  do buildhasher <- d_bh st;                                         (* missing_field("buildhasher") *)
  if negb ((4 <=? b) && (b <=? 18)) then None
  else if negb (lenN registers =? 2 ^ b) then None
  else Some ({| hb := b; hregs := registers |}, buildhasher).

Definition deser (d : doc) : option (hll * N) := do st <- dloop dstate0 d; dfinish st.

(* the invariant established by every constructor and by deserialisation *)
Definition wf (s : hll) : Prop :=
  4 <= hb s <= 18 /\ lenN (hregs s) = 2 ^ hb s /\ Forall (fun r => r < 256) (hregs s).
