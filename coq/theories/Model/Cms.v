(* Model/Cms.v — src/countminsketch.rs. Definitions only.
   Counter type C is modelled by its maximum [cmax] (2^8-1 .. 2^64-1): checked_add returns None
   (the crate then panics through unwrap) above it. *)
From PDS Require Export Model.Hashing.

Record cms := { cw : N; cd : N; cmax : N; ctbl : list N }.

Definition cms_new (w d mx : N) : cms := {| cw := w; cd := d; cmax := mx; ctbl := repeat 0 (N.to_nat (w * d)) |}.

Definition checked_add (mx a b : N) : option N := if a + b <=? mx then Some (a + b) else None.

Section Cms.
Variable H : hashfn.

(* countminsketch.rs:240,259 : x = i * w + pos ; HashIterBuilder::new(w, d, ..) so m = w, k = d *)
Definition cell (s : cms) (x i : N) : N := i * cw s + pos H (cw s) x i.

(* countminsketch.rs:237-250 *)
Fixpoint add_rows (s : cms) (x n : N) (rows : list N) (tbl : list N) (res : N) : option (N * list N) :=
  match rows with
  | [] => Some (res, tbl)
  | i :: r =>
      match getN tbl (cell s x i) with
      | None => None
      | Some cur =>
          let res' := if i =? 0 then cur else N.min res cur in
          match checked_add (cmax s) cur n with
          | None => None
          | Some v => add_rows s x n r (upd tbl (N.to_nat (cell s x i)) v) res'
          end
      end
  end.

Definition cms_add_n (s : cms) (x n : N) : option (N * cms) :=
  if cw s =? 0 then None else
  match add_rows s x n (Nseq 0 (N.to_nat (cd s))) (ctbl s) 0 with
  | None => None
  | Some (res, tbl') =>
      match checked_add (cmax s) res n with
      | None => None
      | Some r => Some (r, {| cw := cw s; cd := cd s; cmax := cmax s; ctbl := tbl' |})
      end
  end.

(* countminsketch.rs:255-263 : min over the d cells; .min().unwrap() panics for d = 0 *)
Fixpoint min_cells (tbl : list N) (cells : list N) (acc : option N) : option N :=
  match cells with
  | [] => acc
  | c :: r => match getN tbl c with
              | None => None
              | Some v => min_cells tbl r (Some (match acc with Some a => N.min a v | None => v end))
              end
  end.
Definition cms_query (s : cms) (x : N) : option N :=
  if cw s =? 0 then None else
  if cd s =? 0 then None else
  min_cells (ctbl s) (map (cell s x) (Nseq 0 (N.to_nat (cd s)))) None.
End Cms.

(* countminsketch.rs:271-293 *)
Fixpoint addl (mx : N) (a b : list N) : option (list N) :=
  match a, b with
  | x :: a', y :: b' => match checked_add mx x y, addl mx a' b' with
                        | Some v, Some r => Some (v :: r) | _, _ => None end
  | _, _ => Some []
  end.
Definition cms_merge (a b : cms) : option cms :=
  if (cd a =? cd b) && (cw a =? cw b) then
    match addl (cmax a) (ctbl a) (ctbl b) with
    | Some t => Some {| cw := cw a; cd := cd a; cmax := cmax a; ctbl := t |}
    | None => None end
  else None.
Definition cms_clear (s : cms) : cms := {| cw := cw s; cd := cd s; cmax := cmax s; ctbl := repeat 0 (N.to_nat (cw s * cd s)) |}.
Definition cms_is_empty (s : cms) : bool := forallb (N.eqb 0) (ctbl s).
