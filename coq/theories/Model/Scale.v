(* Model/Scale.v — src/tdigest.rs:60-300, the four scale functions K0..K3 (f, f_inv) and the merge limit
   f_inv(f(q0, n) + 1, n), generic over the arithmetic record and the transcendental functions.
   Definitions only. Evaluation order of every floating-point expression follows the source. *)
From PDS Require Export Model.TDigest.

Section Scale.
Variable A : arith.
Notation T := (aT A).
Variable ofN : N -> T.
Variables asin sin ln exp : T -> T.
Variable pi : T.
Variable isinf : T -> bool.     (* f64::is_infinite *)
Notation "x + y" := (aadd A x y). Notation "x - y" := (asub A x y).
Notation "x * y" := (amul A x y). Notation "x / y" := (adiv A x y).
Let zero := azero A. Let one := aone A. Let two := ofN 2.
(* f64::min / f64::max on non-NaN values *)
Definition fmin (a b : T) : T := if altb A b a then b else a.
Definition fmax (a b : T) : T := if altb A a b then b else a.
Definition clamp01 (q : T) : T := fmax (fmin q one) zero.                 (* q.min(1.).max(0.) *)

(* K0, tdigest.rs:82-96 *)
Definition k0f (delta q : T) : T := delta / two * clamp01 q.
Definition k0finv (delta k : T) : T := fmax (fmin k (delta / two)) zero * two / delta.
(* K1, tdigest.rs:140-155 *)
Definition k1f (delta q : T) : T := delta / (two * pi) * asin (two * clamp01 q - one).
Definition k1finv (delta k : T) : T :=
  let range := ofN 25 / ofN 100 * delta in            (* 0.25 * delta ; 25/100 is exactly 0.25 in binary64 *)
  let k' := fmax (fmin k range) (zero - range) in
  (sin (k' * two * pi / delta) + one) / two.
(* K2, tdigest.rs:197-232 *)
Definition k2x (delta : T) (n : N) : T := delta / (ofN 4 * ln (ofN n / delta) + ofN 24).
Definition k2f (delta q : T) (n : N) : T := let q' := clamp01 q in k2x delta n * ln (q' / (one - q')).
Definition k2finv (delta k : T) (n : N) : T :=
  if isinf k then (if altb A zero k then one else zero)
  else let z := exp (k / k2x delta n) in z / (z + one).
(* K3, tdigest.rs:262-300 *)
Definition k3x (delta : T) (n : N) : T := delta / (ofN 4 * ln (ofN n / delta) + ofN 21).
Definition k3f (delta q : T) (n : N) : T :=
  let q' := clamp01 q in
  let y := if aleb A q' (ahalf A) then ln (two * q') else zero - ln (two * (one - q')) in
  k3x delta n * y.
Definition k3finv (delta k : T) (n : N) : T :=
  if isinf k then (if altb A zero k then one else zero)
  else let x := k3x delta n in
       if aleb A k zero then exp (k / x) / two else one - exp ((zero - k) / x) / two.

Definition scale_f (kind : N) (delta q : T) (n : N) : T :=
  match kind with 0 => k0f delta q | 1 => k1f delta q | 2 => k2f delta q n | _ => k3f delta q n end.
Definition scale_finv (kind : N) (delta k : T) (n : N) : T :=
  match kind with 0 => k0finv delta k | 1 => k1finv delta k | 2 => k2finv delta k n | _ => k3finv delta k n end.
(* the limit the merge pass uses, tdigest.rs:389-392 *)
Definition scale_lim (kind : N) (delta : T) (n : N) (q0 : T) : T := scale_finv kind delta (scale_f kind delta q0 n + one) n.
End Scale.
