(* Model/Rand.v — the three rand 0.8.8 samplers the crate calls, over a list of 64-bit RNG words
   (one word per next_u32/next_u64 call; next_u32 = low 32 bits). Definitions only.
   rand-0.8.8: distributions/other.rs:137-146 (bool), distributions/uniform.rs:513-561 (integers,
   $u_large = usize = 64 bit), distributions/uniform.rs:815-829 (f64, low = 0, high = 1). *)
From PDS Require Export Base.Util.

(* gen::<bool>() = (next_u32() as i32) < 0 : bit 31 of the word *)
Definition gen_bool (ws : list N) : option (bool * list N) :=
  match ws with w :: r => Some (N.testbit w 31, r) | [] => None end.

(* leading zeros of a non-zero 64-bit word *)
Definition lz64 (x : N) : N := 64 - N.size x.
(* zone = (range << range.leading_zeros()).wrapping_sub(1) *)
Definition lemire_zone (range : N) : N := u64 (u64 (N.shiftl range (lz64 range)) + (2 ^ 64 - 1)).

(* loop { v = rng.gen(); (hi, lo) = v.wmul(range); if lo <= zone { return low + hi } } *)
Fixpoint lemire_loop (lo range zone : N) (ws : list N) : option (N * list N) :=
  match ws with
  | [] => None
  | v :: r => let p := v * range in
              if p mod 2 ^ 64 <=? zone then Some (lo + p / 2 ^ 64, r) else lemire_loop lo range zone r
  end.

(* sample_single_inclusive(low, high): callers guarantee low <= high < 2^64 *)
Definition gen_range_incl (lo hi : N) (ws : list N) : option (N * list N) :=
  let range := u64 (hi - lo + 1) in
  if range =? 0 then match ws with w :: r => Some (w, r) | [] => None end
  else lemire_loop lo range (lemire_zone range) ws.

(* gen_range(lo..hi) : asserts lo < hi *)
Definition gen_range (lo hi : N) (ws : list N) : option (N * list N) :=
  if lo <? hi then gen_range_incl lo (hi - 1) ws else None.

(* gen_range(0.0..1.0) : ((w >> 12) as mantissa of [1,2)) - 1.0 = (w / 2^12) / 2^52, exactly; always < 1.
   Returned as the numerator over 2^52. *)
Definition gen_unit52 (ws : list N) : option (N * list N) :=
  match ws with w :: r => Some (w / 2 ^ 12, r) | [] => None end.
