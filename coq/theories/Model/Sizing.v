(* Model/Sizing.v — the "sizing" constructors of the crate, which turn accuracy targets into table
   dimensions by floating-point formulas:

     BloomFilter::with_properties_and_hash         src/filters/bloomfilter.rs:211-224
     BloomFilter::len                              src/filters/bloomfilter.rs:299-305
     CountMinSketch::with_point_query_properties_and_hasher   src/countminsketch.rs:192-207
       (+ the checked_mul of with_params_and_hasher, countminsketch.rs:181)
     CuckooFilter::with_properties_and_hash_4 / _8 / _n       src/filters/cuckoofilter.rs:270-341
       (+ the assertions of with_params_and_hash, cuckoofilter.rs:231-249, and the checked_mul of
          helpers.rs:33-35, both decided by [cuckoo_new] of Model/Cuckoo.v)

   Definitions only.  Written once over the abstract arithmetic record [arith] of Model/TDigest.v
   (native binary64 in the driver, exact rationals in the proofs) plus

     ofN   : usize as f64            (exact below 2^53, correctly rounded above)
     ln    : f64::ln                 log2 : f64::log2            ceil : f64::ceil
     trunc : f64 as usize            truncation toward zero; negative values and NaN give 0;
                                     saturating at 2^64-1 (Rust >= 1.45 cast semantics)
     E     : f64::consts::E

   Every Rust expression is mirrored operation by operation in Rust's evaluation order.  [None] = the
   constructor panics.

   Conventions
   * unary minus [-x] is [asub azero x].  In binary64 this differs from the sign flip only in the sign of a
     zero result (0 - 0 = +0, -(+0) = -0) and on NaN sign bits.  Every negation below is consumed by a
     division/multiplication chain that ends in [trunc], which maps +0, -0 and every NaN to 0 and cannot
     observe the difference (a zero numerator stays a zero or becomes NaN through the chain).
   * float literals: 2.0, 1.0 (and the integer-valued `2f64`, `1.`) are [ofN 2], [aone].  The decimal
     literals 0.95 and 0.98 are [adiv (ofN 95) (ofN 100)] and [adiv (ofN 98) (ofN 100)]: 95, 98 and 100 are
     exact binary64 numbers and IEEE division is correctly rounded, so the quotient is the binary64
     number nearest to the real 95/100 (98/100), which is by definition what rustc produces for the
     literal.  (In Q the quotient is the exact rational.)
   * [assert!((p > 0.) & (p < 1.))] is [altb zero p && altb p one]; comparisons with NaN are false, so a NaN
     argument panics, as in Rust.
   * not modelled: failure of the allocation itself (`FixedBitSet::with_capacity(m)`, `vec![0; w*d]`,
     `IntVector::block_with_fill`) for astronomically large dimensions - that is the allocator's
     behaviour (abort / "capacity overflow"), not the arithmetic of the constructor. *)
From PDS Require Export Model.TDigest Model.Cuckoo.

(* usize::next_power_of_two : smallest power of two >= x, 1 for x = 0.
   core: if x <= 1 { 1 } else { (usize::MAX >> (x-1).leading_zeros()) + 1 } = 2^(1 + floor(log2 (x-1))),
   and N.log2_up x = succ (log2 (pred x)) for 1 < x, 0 otherwise (N.log2_up_eqn, N.log2_up_eqn0).
   For x > 2^63 the Rust result does not fit: debug builds panic, release builds return 0, which then
   fails `n_buckets.is_power_of_two()`.  The model returns the mathematical value 2^64, which fails the
   table-size check of [cuckoo_new].  Either way the constructor panics ([None]). *)
Definition npow2 (x : N) : N := 2 ^ N.log2_up x.

(* the assertions of with_params_and_hash as a boolean, WITHOUT building the table.  It is the very
   condition tested by [cuckoo_new]; Proofs/SizingProofs.v ([cuckoo_params_ok_new]) proves
   [cuckoo_params_ok bs nb l = true <-> exists s, cuckoo_new bs nb l = Some s].  Used by the replay
   (Exec/ExSizing.v), where building [repeat 0 (N.to_nat (bs*nb))] with unary [nat] is too slow. *)
Definition cuckoo_params_ok (bs nb l : N) : bool :=
  (2 <=? bs) && is_pow2 nb && (2 <=? nb) && (1 <? l) && (l <=? 64) && (nb * bs <? 2 ^ 64) && (l * (nb * bs) <? 2 ^ 64).

Section Sizing.
Variable A : arith.
Notation T := (aT A). Notation zero := (azero A). Notation one := (aone A).
Notation add := (aadd A). Notation sub := (asub A). Notation mul := (amul A). Notation div := (adiv A).
Notation leb := (aleb A). Notation ltb := (altb A).
Variable ofN : N -> T.           (* usize as f64 *)
Variables ln log2 ceil : T -> T. (* f64::ln, f64::log2, f64::ceil *)
Variable trunc : T -> N.         (* f64 as usize *)
Variable E : T.                  (* f64::consts::E *)

Definition fneg (x : T) : T := sub zero x.

(* ---------- Bloom filter, bloomfilter.rs:211-224 ----------
     assert!(n > 0); assert!((p > 0.) & (p < 1.));
     let k = ((-p.log2()) as usize).max(1);
     let ln2 = (2f64).ln();
     let m = ((-((n as f64) * p.ln()) / (ln2 * ln2)) as usize).max(1);
   result (m, k) *)
Definition bloom_sizing (n : N) (p : T) : option (N * N) :=
  if (0 <? n) && ltb zero p && ltb p one then
    let k := N.max (trunc (fneg (log2 p))) 1 in
    let ln2 := ln (ofN 2) in
    let m := N.max (trunc (div (fneg (mul (ofN n) (ln p))) (mul ln2 ln2))) 1 in
    Some (m, k)
  else None.

(* bloomfilter.rs:299-305 : m = bs.len() as f64; k = self.k as f64; x = ones as f64;
     (-m / k * (1. - x / m).ln()) as usize          where  -m / k * y  parses as  ((-m) / k) * y *)
Definition bloom_len (m k x : N) : N :=
  let mf := ofN m in let kf := ofN k in let xf := ofN x in
  trunc (mul (div (fneg mf) kf) (ln (sub one (div xf mf)))).

(* ---------- Count-Min sketch, countminsketch.rs:192-207 and :181 ----------
     assert!(epsilon > 0.); assert!((delta > 0.) & (delta < 1.));
     let w = (f64::consts::E / epsilon).ceil() as usize;
     let d = (1. / delta).ln().ceil() as usize;
     with_params_and_hasher(w, d, ..) : vec![C::zero(); w.checked_mul(d).unwrap()]
   result (w, d) *)
Definition cms_sizing (eps delta : T) : option (N * N) :=
  if ltb zero eps && ltb zero delta && ltb delta one then
    let w := trunc (ceil (div E eps)) in
    let d := trunc (ceil (ln (div one delta))) in
    if w * d <? 2 ^ 64 then Some (w, d) else None
  else None.

(* ---------- Cuckoo filter, cuckoofilter.rs:313-341 ----------
     assert!(expected_elements >= 1); assert!((fpr > 0.) && (fpr < 1.));
     let l_fingerprint = (2.0 * (bucketsize as f64) / fpr).log2().ceil() as usize;
     let costs = (l_fingerprint as f64) / load_factor;
     let n_buckets = ((costs * (expected_elements as f64) / (l_fingerprint as f64)).ceil() as usize)
                       .next_power_of_two();
     with_params_and_hash(rng, bucketsize, n_buckets, l_fingerprint, bh)
   [cuckoo_dims] is the arithmetic, [cuckoo_sizing] adds the assertions of with_params_and_hash.
   result (bucketsize, n_buckets, l_fingerprint) *)
Definition cuckoo_dims (bs : N) (load p : T) (n : N) : N * N :=
  let l := trunc (ceil (log2 (div (mul (ofN 2) (ofN bs)) p))) in
  let costs := div (ofN l) load in
  let nb := npow2 (trunc (ceil (div (mul costs (ofN n)) (ofN l)))) in
  (nb, l).

Definition cuckoo_sizing (bs : N) (load p : T) (n : N) : option (N * N * N) :=
  if (1 <=? n) && ltb zero p && ltb p one then
    let '(nb, l) := cuckoo_dims bs load p n in
    match cuckoo_new bs nb l with
    | Some _ => Some (bs, nb, l)
    | None => None
    end
  else None.

(* the same function with the assertions decided by [cuckoo_params_ok]
   (Proofs/SizingProofs.v : [cuckoo_sizing_chk_eq]) *)
Definition cuckoo_sizing_chk (bs : N) (load p : T) (n : N) : option (N * N * N) :=
  if (1 <=? n) && ltb zero p && ltb p one then
    let '(nb, l) := cuckoo_dims bs load p n in
    if cuckoo_params_ok bs nb l then Some (bs, nb, l) else None
  else None.

(* cuckoofilter.rs:270-311 : bucketsize 4 / load factor 0.95, bucketsize 8 / load factor 0.98 *)
Definition load4 : T := div (ofN 95) (ofN 100).
Definition load8 : T := div (ofN 98) (ofN 100).
Definition cuckoo_sizing_4 (p : T) (n : N) : option (N * N * N) := cuckoo_sizing 4 load4 p n.
Definition cuckoo_sizing_8 (p : T) (n : N) : option (N * N * N) := cuckoo_sizing 8 load8 p n.
Definition cuckoo_sizing_chk_4 (p : T) (n : N) : option (N * N * N) := cuckoo_sizing_chk 4 load4 p n.
Definition cuckoo_sizing_chk_8 (p : T) (n : N) : option (N * N * N) := cuckoo_sizing_chk 8 load8 p n.
End Sizing.
