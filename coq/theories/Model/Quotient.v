(* Model/Quotient.v — src/filters/quotientfilter.rs, statement by statement. Definitions only.
   Three bit lists + remainder list, ring arithmetic incr/decr. Loops run on explicit fuel;
   [None]/[Stuck] = fuel exhausted or the crate's panic!("infinite loop detected"). *)
From PDS Require Export Model.Hashing.

Record qf := { qocc : list bool; qcont : list bool; qshf : list bool; qrem : list N; qcnt : N; qbq : N; qbr : N }.

Fixpoint getb (l : list bool) (i : N) : bool := match l with [] => false | x :: t => if i =? 0 then x else getb t (N.pred i) end.
Fixpoint getn (l : list N) (i : N) : N := match l with [] => 0 | x :: t => if i =? 0 then x else getn t (N.pred i) end.
Fixpoint setl {A} (l : list A) (i : N) (v : A) : list A := match l with [] => [] | x :: t => if i =? 0 then v :: t else x :: setl t (N.pred i) v end.
Definition qincr (n p : N) := if p =? n - 1 then 0 else p + 1.   (* quotientfilter.rs:370-376 *)
Definition qdecr (n p : N) := if p =? 0 then n - 1 else p - 1.   (* quotientfilter.rs:362-368 *)

Definition qf_new (bq br : N) : option qf :=
  if (0 <? br) && (br <=? 64) && (0 <? bq) && (br + bq <=? 64) then
    let n := N.to_nat (2 ^ bq) in
    Some {| qocc := repeat false n; qcont := repeat false n; qshf := repeat false n; qrem := repeat 0 n; qcnt := 0; qbq := bq; qbr := br |}
  else None.

Section QF.
Variable n : N.          (* number of slots, 2^bits_quotient *)
Variable fuel0 : nat.    (* > n *)
(* l.391-394: while is_shifted[b] { decr b } *)
Fixpoint walk_back (s : qf) (b : N) (fuel : nat) : option N :=
  match fuel with O => None | S f => if getb (qshf s) b then walk_back s (qdecr n b) f else Some b end.
(* l.402-407: loop { incr s; if !is_continuation[s] break } *)
Fixpoint skip_run (s : qf) (p : N) (fuel : nat) : option N :=
  match fuel with O => None | S f => let p' := qincr n p in if getb (qcont s) p' then skip_run s p' f else Some p' end.
(* l.410-415: loop { incr b; if is_occupied[b] || (b == quotient && on_insert) break } *)
Fixpoint next_occ (s : qf) (b q : N) (on_insert : bool) (fuel : nat) : option N :=
  match fuel with O => None | S f => let b' := qincr n b in if getb (qocc s) b' || ((b' =? q) && on_insert) then Some b' else next_occ s b' q on_insert f end.
(* l.398-416: while b != quotient { skip run; next occupied } *)
Fixpoint walk_fwd (s : qf) (b sp q : N) (on_insert : bool) (fuel : nat) : option N :=
  match fuel with O => None | S f =>
    if b =? q then Some sp else
    match skip_run s sp fuel0 with None => None | Some sp' =>
    match next_occ s b q on_insert fuel0 with None => None | Some b' => walk_fwd s b' sp' q on_insert f end end end.
(* l.420-439: search of remainder within the (sorted) run; returns (present, position) *)
Fixpoint in_run (s : qf) (p r : N) (fuel : nat) : option (bool * N) :=
  match fuel with O => None | S f =>
    let x := getn (qrem s) p in
    if x =? r then Some (true, p) else if r <? x then Some (false, p) else
    let p' := qincr n p in if getb (qcont s) p' then in_run s p' r f else Some (false, p') end.
(* scan (l.378-452): (present, position, start_of_run) *)
Definition scan (s : qf) (q r : N) (on_insert : bool) : option (bool * N * option N) :=
  let run_exists := getb (qocc s) q in
  if negb run_exists && negb on_insert then Some (false, q, None) else
  match walk_back s q fuel0 with None => None | Some b =>
  match walk_fwd s b b q on_insert fuel0 with None => None | Some sp =>
  if run_exists then match in_run s sp r fuel0 with None => None | Some (pr, p) => Some (pr, p, Some sp) end
  else Some (false, sp, None) end end.
Definition upd_qf (s : qf) (o c sh : list bool) (rm : list N) (k : N) : qf :=
  {| qocc := o; qcont := c; qshf := sh; qrem := rm; qcnt := k; qbq := qbq s; qbr := qbr s |}.
(* l.491-511: swap chain *)
Fixpoint chain (s : qf) (start pos : N) (c_cont : bool) (c_rem : N) (c_used : bool) (fuel : nat) : option qf :=
  match fuel with O => None | S f =>
    if negb c_used then Some s else
    let p := qincr n pos in
    let n_cont := getb (qcont s) p in let n_rem := getn (qrem s) p in let n_used := getb (qocc s) p || getb (qshf s) p in
    let s' := upd_qf s (qocc s) (setl (qcont s) p c_cont) (setl (qshf s) p true) (setl (qrem s) p c_rem) (qcnt s) in
    if p =? start then None else chain s' start p n_cont n_rem n_used f end.

Inductive qres := QOkT | QOkF | QFull | QStuck.
(* insert_internal, l.454-519 *)
Definition qf_insert_internal (s : qf) (q r : N) : qres * qf :=
  match scan s q r true with None => (QStuck, s) | Some (present, pos, sor) =>
  if present then (QOkF, s) else
  if qcnt s =? n then (QFull, s) else
  let at_start := match sor with Some st0 => st0 =? pos | None => false end in
  let has_run := match sor with Some _ => true | None => false end in
  let c_cont := getb (qcont s) pos || at_start in
  let c_rem := getn (qrem s) pos in
  let c_used := getb (qocc s) pos || getb (qshf s) pos in
  let s1 := upd_qf s (qocc s) (if has_run && negb at_start then setl (qcont s) pos true else qcont s)
               (if negb (pos =? q) then setl (qshf s) pos true else qshf s) (setl (qrem s) pos r) (qcnt s) in
  match chain s1 pos pos c_cont c_rem c_used fuel0 with None => (QStuck, s) | Some s2 =>
  (QOkT, upd_qf s2 (setl (qocc s2) q true) (qcont s2) (qshf s2) (qrem s2) (qcnt s2 + 1)) end end.
Definition qf_query_internal (s : qf) (q r : N) : bool := match scan s q r false with Some (p, _, _) => p | None => false end.

(* union, l.568-607: the walk over the other filter, as the list of (quotient, remainder) it re-inserts.
   [decode_cluster] follows one cluster starting after its first slot i. None = pop_front on an empty queue. *)
Fixpoint decode_cluster (b : qf) (i j q : N) (queue : list N) (fuel : nat) : option (list (N * N)) :=
  match fuel with O => None | S f =>
    if negb (j =? i) && getb (qshf b) j then
      let queue1 := if getb (qocc b) j then queue ++ [j] else queue in
      match (if negb (getb (qcont b) j) then match queue1 with [] => None | h :: t => Some (h, t) end else Some (q, queue1)) with
      | None => None
      | Some (q', queue2) =>
          match decode_cluster b i (qincr n j) q' queue2 f with
          | None => None
          | Some rest => Some ((q', getn (qrem b) j) :: rest)
          end
      end
    else Some []
  end.
Fixpoint decode_from (b : qf) (is : list N) : option (list (N * N)) :=
  match is with
  | [] => Some []
  | i :: r =>
      if getb (qocc b) i && negb (getb (qshf b) i) then
        match decode_cluster b i (qincr n i) i [] fuel0, decode_from b r with
        | Some c, Some rest => Some ((i, getn (qrem b) i) :: c ++ rest)
        | _, _ => None
        end
      else decode_from b r
  end.
Definition decode (b : qf) : option (list (N * N)) := decode_from b (Nseq 0 (N.to_nat n)).

(* union = fold of insert_internal over decode b; any Err restores the full backup *)
Fixpoint insert_all (s : qf) (l : list (N * N)) : qres * qf :=
  match l with
  | [] => (QOkT, s)
  | (q, r) :: t => match qf_insert_internal s q r with
                   | (QFull, _) => (QFull, s)
                   | (QStuck, _) => (QStuck, s)
                   | (_, s') => insert_all s' t
                   end
  end.
End QF.

Definition qf_n (s : qf) : N := 2 ^ qbq s.
Definition qf_fuel (s : qf) : nat := S (S (N.to_nat (qf_n s))).

Section Ops.
Variable H : hashfn.
(* calc_quotient_remainder, l.347-360 *)
Definition qf_split (bq br fp : N) : N * N :=
  let bits_trash := 64 - br - bq in
  let trash := if 0 <? bits_trash then N.shiftl (N.shiftr fp (64 - bits_trash)) (64 - bits_trash) else 0 in
  let clean := fp - trash in
  let q := N.shiftr clean br in
  (q, clean - N.shiftl q br).
Definition qf_calc (s : qf) (x : N) : N * N := qf_split (qbq s) (qbr s) (H None (Some x)).
Definition qf_insert (s : qf) (x : N) : qres * qf :=
  let '(q, r) := qf_calc s x in qf_insert_internal (qf_n s) (qf_fuel s) s q r.
Definition qf_query (s : qf) (x : N) : bool :=
  let '(q, r) := qf_calc s x in qf_query_internal (qf_n s) (qf_fuel s) s q r.
End Ops.

(* Filter::union, l.543-610 : (Ok | Full | Stuck, new state); on failure the state is the backup *)
Definition qf_union (a b : qf) : option (qres * qf) :=
  if (qbq a =? qbq b) && (qbr a =? qbr b) then
    match decode (qf_n b) (qf_fuel b) b with
    | None => Some (QStuck, a)
    | Some l => match insert_all (qf_n a) (qf_fuel a) a l with
                | (QFull, _) => Some (QFull, a)
                | (QStuck, _) => Some (QStuck, a)
                | (_, s') => Some (QOkT, s')
                end
    end
  else None.
Definition qf_clear (s : qf) : qf :=
  let n := length (qocc s) in
  {| qocc := repeat false n; qcont := repeat false n; qshf := repeat false n; qrem := repeat 0 (length (qrem s)); qcnt := 0; qbq := qbq s; qbr := qbr s |}.
Definition qf_len (s : qf) : N := qcnt s.
Definition qf_is_empty (s : qf) : bool := qcnt s =? 0.
