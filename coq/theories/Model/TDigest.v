(* Model/TDigest.v — src/tdigest.rs TDigestInner (after repairs F7, F8), written once over an abstract
   arithmetic and instantiated with Q (exact; theorems) and PrimFloat (bit-faithful; correspondence).
   Definitions only. A centroid is (sum, count). *)
From PDS Require Export Base.Util.

Record arith := { aT : Type; azero : aT; aone : aT; ahalf : aT; aadd : aT -> aT -> aT; asub : aT -> aT -> aT;
                  amul : aT -> aT -> aT; adiv : aT -> aT -> aT; aleb : aT -> aT -> bool; altb : aT -> aT -> bool; anan : aT }.

Section TD.
Variable A : arith.
Notation T := (aT A). Notation zero := (azero A). Notation one := (aone A). Notation half := (ahalf A).
Notation add := (aadd A). Notation sub := (asub A). Notation mul := (amul A). Notation div := (adiv A).
Notation leb := (aleb A). Notation ltb := (altb A). Notation nan := (anan A).
(* lim n q0 = f_inv(f(q0, n) + 1, n) : the scale function, tdigest.rs:389-392,400-403 *)
Variable lim : N -> T -> T.

Definition centroid := (T * T)%type.   (* (sum, count) *)
Definition csum (c : centroid) := fst c.
Definition ccount (c : centroid) := snd c.
Definition cmean (c : centroid) : T := div (csum c) (ccount c).               (* tdigest.rs:20-22 *)
Definition fuse (a b : centroid) : centroid := (add (csum a) (csum b), add (ccount a) (ccount b)).   (* 13-18 *)
Definition tmin (a b : T) : T := if ltb b a then b else a.     (* f64::min on non-NaN values *)
Definition tmax (a b : T) : T := if ltb a b then b else a.

Record td := { tcent : list centroid; tn : N; tmn : option T; tmx : option T; tback : list centroid; tmaxb : N }.
Definition td_new (maxb : N) : td := {| tcent := []; tn := 0; tmn := None; tmx := None; tback := []; tmaxb := maxb |}.

(* stable sort by mean (slice::sort_by is stable): insertion after all elements <= *)
Fixpoint sinsert (e : T * centroid) (l : list (T * centroid)) : list (T * centroid) :=
  match l with
  | [] => [e]
  | y :: r => if ltb (fst e) (fst y) then e :: l else y :: sinsert e r
  end.
Definition ssort (l : list (T * centroid)) : list (T * centroid) := fold_left (fun acc e => sinsert e acc) l [].

Definition total (l : list centroid) : T := fold_left (fun a c => add a (ccount c)) l zero.
Definition totalsum (l : list centroid) : T := fold_left (fun a c => add a (csum c)) l zero.

(* tdigest.rs:396-410 : the greedy pass; returns the emitted centroids in order *)
Fixpoint greedy (n : N) (s q0 qlim : T) (cur : centroid) (rest : list centroid) : list centroid :=
  match rest with
  | [] => [cur]
  | nx :: r =>
      let q := add q0 (div (add (ccount cur) (ccount nx)) s) in
      if leb q qlim then greedy n s q0 qlim (fuse cur nx) r
      else let q0' := add q0 (div (ccount cur) s) in
           cur :: greedy n s q0' (lim n q0') nx r
  end.

(* tdigest.rs:370-413 *)
Definition td_merge (d : td) : td :=
  match tback d with
  | [] => d
  | _ =>
      let xs := map snd (ssort (map (fun c => (cmean c, c)) (tcent d ++ tback d))) in
      match xs with
      | [] => d
      | c0 :: r =>
          let s := total xs in
          {| tcent := greedy (tn d) s zero (lim (tn d) zero) c0 r; tn := tn d; tmn := tmn d; tmx := tmx d;
             tback := []; tmaxb := tmaxb d |}
      end
  end.

(* tdigest.rs:355-368 *)
Definition td_insert_inner (d : td) (x w : T) : td :=
  let d1 := {| tcent := tcent d; tn := tn d + 1;
               tmn := Some (match tmn d with Some m => tmin m x | None => x end);
               tmx := Some (match tmx d with Some m => tmax m x | None => x end);
               tback := tback d ++ [(mul x w, w)]; tmaxb := tmaxb d |} in
  if tmaxb d <? lenN (tback d1) then td_merge d1 else d1.
(* public wrapper, tdigest.rs:832-846 : zero weight returns early (argument validation is the caller's) *)
Definition td_insert_weighted (d : td) (x w : T) : td :=
  if leb w zero && leb zero w then d else td_insert_inner d x w.

Definition interp (a b t : T) : T := add (mul t b) (mul (sub one t) a).      (* tdigest.rs:415-420 *)

Definition td_count (d : td) : T := total (tcent d).
Definition td_sum (d : td) : T := totalsum (tcent d).

(* tdigest.rs:435-448 from the second centroid on; [prev] is centroids[i-1], [cum] the weight before c *)
Fixpoint qloop (limit : T) (prev : centroid) (cum : T) (rest : list centroid) (s mx : T) : T :=
  match rest with
  | [] =>
      (* right tail, tdigest.rs:451-457 (repaired) *)
      let cum' := sub cum (mul half (ccount prev)) in
      let delta := mul half (ccount prev) in
      let t0 := div (sub limit cum') delta in
      let t := if ltb one t0 then one else t0 in
      interp (cmean prev) mx t
  | c :: r =>
      if leb limit (add cum (mul (ccount c) half)) then
        let cum' := sub cum (mul half (ccount prev)) in
        let delta := mul half (add (ccount prev) (ccount c)) in
        interp (cmean prev) (cmean c) (div (sub limit cum') delta)
      else qloop limit c (add cum (ccount c)) r s mx
  end.

(* tdigest.rs:422-458 on a merged digest *)
Definition td_quantile_inner (d : td) (q : T) : T :=
  match tcent d, tmn d, tmx d with
  | c0 :: r, Some mn, Some mx =>
      let s := td_count d in
      let limit := mul s q in
      if leb limit (mul (ccount c0) half) then interp mn (cmean c0) (div limit (mul half (ccount c0)))
      else qloop limit c0 (add zero (ccount c0)) r s mx
  | _, _, _ => nan
  end.

(* tdigest.rs:472-484 *)
Fixpoint cloop (x s : T) (cum last_mean last_cum : T) (rest : list centroid) (mx : T) : T :=
  match rest with
  | [] =>
      if ltb x mx then
        let delta := sub mx last_mean in
        div (interp last_cum s (div (sub x last_mean) delta)) s
      else one
  | c :: r =>
      let cur := add cum (mul half (ccount c)) in
      if ltb x (cmean c) then
        let delta := sub (cmean c) last_mean in
        div (interp last_cum cur (div (sub x last_mean) delta)) s
      else cloop x s (add cum (ccount c)) (cmean c) cur r mx
  end.

(* tdigest.rs:460-493 *)
Definition td_cdf_inner (d : td) (x : T) : T :=
  match tcent d, tmn d, tmx d with
  | _ :: _, Some mn, Some mx =>
      if ltb x mn then zero else cloop x (td_count d) zero mn zero (tcent d) mx
  | _, _, _ => zero
  end.

(* public read API: merge first (tdigest.rs:813-818,855-929) *)
Definition td_quantile (d : td) (q : T) : td * T := let d' := td_merge d in (d', td_quantile_inner d' q).
Definition td_cdf (d : td) (x : T) : td * T := let d' := td_merge d in (d', td_cdf_inner d' x).
Definition td_count_pub (d : td) : td * T := let d' := td_merge d in (d', td_count d').
Definition td_sum_pub (d : td) : td * T := let d' := td_merge d in (d', td_sum d').
Definition td_mean_pub (d : td) : td * T := let d' := td_merge d in (d', div (td_sum d') (td_count d')).
Definition td_ncentroids (d : td) : td * N := let d' := td_merge d in (d', lenN (tcent d')).
Definition td_is_empty (d : td) : bool := match tcent d, tback d with [], [] => true | _, _ => false end.
(* tdigest.rs:348-354 (repaired: n_samples reset) *)
Definition td_clear (d : td) : td := td_new (tmaxb d).
End TD.
