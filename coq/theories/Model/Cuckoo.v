(* Model/Cuckoo.v — src/filters/cuckoofilter.rs (after the repairs F1, F2). Definitions only.
   Table = list of fingerprints (0 = free slot), bucket i = slots [i*bs, i*bs+bs). The packed
   IntVector may be longer than bs*nb (tail slots are never written). *)
From PDS Require Export Model.Hashing Model.Rand.

Record cuckoo := { kbs : N; knb : N; kl : N; ktbl : list N; kn : N }.

Definition MAX_NUM_KICKS : nat := 500.

(* with_params_and_hash assertions (cuckoofilter.rs:228-249); table length as allocated by
   all_zero_intvector: floor(64 * ceil(l*bs*nb/64) / l) slots *)
Definition is_pow2 (n : N) : bool := (0 <? n) && (N.land n (n - 1) =? 0).
Definition alloc_blocks (bits len : N) : N := let b := bits * len in b / 64 + (if b mod 64 =? 0 then 0 else 1).
Definition cuckoo_new (bs nb l : N) : option cuckoo :=
  if (2 <=? bs) && is_pow2 nb && (2 <=? nb) && (1 <? l) && (l <=? 64) && (nb * bs <? 2 ^ 64) && (l * (nb * bs) <? 2 ^ 64)
  then Some {| kbs := bs; knb := nb; kl := l; ktbl := repeat 0 (N.to_nat (64 * alloc_blocks l (nb * bs) / l)); kn := 0 |}
  else None.

Section Cuckoo.
Variable H : hashfn.
Variables bs nb l : N.

(* cuckoofilter.rs:382-394 *)
Definition fpr (x : N) : N := 1 + H (Some 0) (Some x) mod (if l =? 64 then 2 ^ 64 - 1 else 2 ^ l - 1).
(* cuckoofilter.rs:396-404 : same function for keys and fingerprints (both u64) *)
Definition hb (y : N) : N := N.land (H (Some 1) (Some y)) (nb - 1).
(* cuckoofilter.rs:375-380 *)
Definition start (x : N) : N * N * N := (fpr x, hb x, N.lxor (hb x) (hb (fpr x))).

(* first slot in [off, off+cnt) holding v *)
Fixpoint find_slot (t : list N) (off : N) (cnt : nat) (v : N) : option N :=
  match cnt with
  | O => None
  | S c => if getD 0 t off =? v then Some off else find_slot t (off + 1) c v
  end.

Definition ulog := list (N * N).   (* newest first: (slot, previous content) *)

(* cuckoofilter.rs:406-416 (repaired: logs the free-slot write) *)
Definition write_bucket (t : list N) (i f : N) (lg : ulog) : option (list N * ulog) :=
  match find_slot t (i * bs) (N.to_nat bs) 0 with
  | Some s => match setN t s f with Some t' => Some (t', (s, 0) :: lg) | None => None end
  | None => None
  end.
Definition has_in_bucket (t : list N) (i f : N) : bool :=
  match find_slot t (i * bs) (N.to_nat bs) f with Some _ => true | None => false end.
Definition remove_from_bucket (t : list N) (i f : N) : option (list N) :=
  match find_slot t (i * bs) (N.to_nat bs) f with
  | Some s => setN t s 0
  | None => None
  end.

Inductive kres := KOk (t : list N) (lg : ulog) (ws : list N) | KFull (t : list N) (lg : ulog) (ws : list N) | KStuck.

(* cuckoofilter.rs:459-476 : the eviction loop *)
Fixpoint kick (t : list N) (f i : N) (lg : ulog) (ws : list N) (fuel : nat) : kres :=
  match fuel with
  | O => KFull t lg ws
  | S fu =>
      match gen_range 0 bs ws with
      | None => KStuck
      | Some (e, ws') =>
          let s := i * bs + e in
          let tmp := getD 0 t s in
          match setN t s f with
          | None => KStuck
          | Some t' =>
              let lg' := (s, tmp) :: lg in
              let i' := N.lxor i (hb tmp) in
              match write_bucket t' i' tmp lg' with
              | Some (t'', lg'') => KOk t'' lg'' ws'
              | None => kick t' tmp i' lg' ws' fu
              end
          end
      end
  end.

(* cuckoofilter.rs:438-477 *)
Definition insert_internal (t : list N) (f i1 i2 : N) (lg : ulog) (ws : list N) : kres :=
  match write_bucket t i1 f lg with
  | Some (t', lg') => KOk t' lg' ws
  | None =>
      match write_bucket t i2 f lg with
      | Some (t', lg') => KOk t' lg' ws
      | None =>
          match gen_bool ws with
          | None => KStuck
          | Some (b, ws') => kick t f (if b then i1 else i2) lg ws' MAX_NUM_KICKS
          end
      end
  end.

(* cuckoofilter.rs:479-483 : log.iter().rev() = newest first *)
Definition restore (t : list N) (lg : ulog) : list N :=
  fold_left (fun t e => upd t (N.to_nat (fst e)) (snd e)) lg t.
End Cuckoo.

Inductive ires := IOk (b : bool) | IFull.

Section Ops.
Variable H : hashfn.
Definition mk (s : cuckoo) (t : list N) (n : N) : cuckoo := {| kbs := kbs s; knb := knb s; kl := kl s; ktbl := t; kn := n |}.

(* Filter::insert, cuckoofilter.rs:509-517 ; None = panic or out of RNG words *)
Definition cuckoo_insert (s : cuckoo) (x : N) (ws : list N) : option (ires * cuckoo * list N) :=
  let '(f, i1, i2) := start H (knb s) (kl s) x in
  match insert_internal H (kbs s) (knb s) (ktbl s) f i1 i2 [] ws with
  | KOk t _ ws' => Some (IOk true, mk s t (kn s + 1), ws')
  | KFull t lg ws' => Some (IFull, mk s (restore t lg) (kn s), ws')
  | KStuck => None
  end.

(* cuckoofilter.rs:361-373 *)
Definition cuckoo_delete (s : cuckoo) (x : N) : bool * cuckoo :=
  let '(f, i1, i2) := start H (knb s) (kl s) x in
  match remove_from_bucket (kbs s) (ktbl s) i1 f with
  | Some t => (true, mk s t (kn s - 1))
  | None => match remove_from_bucket (kbs s) (ktbl s) i2 f with
            | Some t => (true, mk s t (kn s - 1))
            | None => (false, s)
            end
  end.

Definition cuckoo_query (s : cuckoo) (x : N) : bool :=
  let '(f, i1, i2) := start H (knb s) (kl s) x in
  has_in_bucket (kbs s) (ktbl s) i1 f || has_in_bucket (kbs s) (ktbl s) i2 f.

(* cuckoofilter.rs:519-560 : walk the other table; slot index -> bucket; shared undo log *)
Fixpoint union_loop (bs nb : N) (t : list N) (n : N) (lg : ulog) (ws : list N) (slots : list N) (idx : N)
  : option (bool * list N * N * ulog * list N) :=
  match slots with
  | [] => Some (true, t, n, lg, ws)
  | f :: r =>
      if f =? 0 then union_loop bs nb t n lg ws r (idx + 1) else
      let i1 := idx / bs in
      let i2 := N.lxor i1 (hb H nb f) in
      match insert_internal H bs nb t f i1 i2 lg ws with
      | KOk t' lg' ws' => union_loop bs nb t' (n + 1) lg' ws' r (idx + 1)
      | KFull t' lg' ws' => Some (false, t', n, lg', ws')
      | KStuck => None
      end
  end.
Definition cuckoo_union (a b : cuckoo) (ws : list N) : option (bool * cuckoo * list N) :=
  if (kbs a =? kbs b) && (knb a =? knb b) && (kl a =? kl b) then
    match union_loop (kbs a) (knb a) (ktbl a) (kn a) [] ws (ktbl b) 0 with
    | Some (true, t, n, _, ws') => Some (true, mk a t n, ws')
    | Some (false, t, _, lg, ws') => Some (false, mk a (restore t lg) (kn a), ws')
    | None => None
    end
  else None.

Definition cuckoo_clear (s : cuckoo) : cuckoo := mk s (repeat 0 (length (ktbl s))) 0.
Definition cuckoo_len (s : cuckoo) : N := kn s.
Definition cuckoo_is_empty (s : cuckoo) : bool := kn s =? 0.
End Ops.
