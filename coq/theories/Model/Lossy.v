(* Model/Lossy.v — src/topk/lossycounter.rs. Definitions only.
   known : association list key -> (f, delta) (HashMap; iteration order is not observable after sorting). *)
From PDS Require Export Base.Util.
From Coq Require Export QArith Qround.
Open Scope N_scope.

Record lossy := { lw : N; ln : N; lknown : list (N * (N * N)) }.

Definition lossy_new (w : N) : option lossy := if 0 <? w then Some {| lw := w; ln := 0; lknown := [] |} else None.

Fixpoint lfind (k : list (N * (N * N))) (x : N) : option (N * N) :=
  match k with [] => None | (y, e) :: t => if x =? y then Some e else lfind t x end.
Fixpoint lbump (k : list (N * (N * N))) (x : N) : list (N * (N * N)) :=
  match k with [] => [] | (y, (f, d)) :: t => if x =? y then (y, (f + 1, d)) :: t else (y, (f, d)) :: lbump t x end.

(* lossycounter.rs:222-257 : returns was_new *)
Definition lossy_add (s : lossy) (x : N) : bool * lossy :=
  let n := ln s + 1 in
  let at_end := n mod lw s =? 0 in
  let b := n / lw s + (if at_end then 0 else 1) in
  let '(was_new, k1) := match lfind (lknown s) x with
                        | Some _ => (false, lbump (lknown s) x)
                        | None => (true, lknown s ++ [(x, (1, b - 1))])
                        end in
  let k2 := if at_end then filter (fun e => b <? fst (snd e) + snd (snd e)) k1 else k1 in
  (was_new, {| lw := lw s; ln := n; lknown := k2 |}).

(* lossycounter.rs:267-274 with the bound given: keys with f >= bound.
   bound = max(0, ceil((threshold - epsilon) * n)) is a float computation; [lossy_bound] is its exact
   rational counterpart for thresholds/epsilons given as rationals. *)
Definition lossy_query_bound (s : lossy) (bound : N) : list N :=
  map fst (filter (fun e => bound <=? fst (snd e)) (lknown s)).
Definition Qceil_N (q : Q) : N := Z.to_N (Z.max 0 (- (Qfloor (- q)))).
Definition lossy_bound (s : lossy) (eps th : Q) : N := Qceil_N ((th - eps) * inject_Z (Z.of_N (ln s))).
Definition lossy_query (s : lossy) (eps th : Q) : list N := lossy_query_bound s (lossy_bound s eps th).
Definition lossy_clear (s : lossy) : lossy := {| lw := lw s; ln := 0; lknown := [] |}.
