(* Model/Bloom.v — src/filters/bloomfilter.rs. Definitions only. *)
From PDS Require Export Model.Hashing.

Record bloom := { bm : N; bk : N; bbits : list bool }.

Definition bloom_new (m k : N) : bloom := {| bm := m; bk := k; bbits := repeat false (N.to_nat m) |}.

Section Bloom.
Variable H : hashfn.

(* FixedBitSet::put(pos): set bit, return previous value; panics when out of range *)
Definition put (bits : list bool) (p : N) : option (bool * list bool) :=
  match getN bits p with
  | Some old => Some (old, upd bits (N.to_nat p) true)
  | None => None
  end.

(* bloomfilter.rs:257-264 : was_present &= put(pos) for every position, in order *)
Fixpoint put_all (bits : list bool) (ps : list N) (was : bool) : option (bool * list bool) :=
  match ps with
  | [] => Some (was, bits)
  | p :: r => match put bits p with
              | Some (old, bits') => put_all bits' r (was && old)
              | None => None
              end
  end.

(* returns (Ok(!was_present), new state); None = panic (m = 0: remainder by zero) *)
Definition bloom_insert (s : bloom) (x : N) : option (bool * bloom) :=
  if bm s =? 0 then None else
  match put_all (bbits s) (positions H (bm s) (bk s) x) true with
  | Some (was, bits') => Some (negb was, {| bm := bm s; bk := bk s; bbits := bits' |})
  | None => None
  end.

(* bloomfilter.rs:307-314 *)
Definition bloom_query (s : bloom) (x : N) : option bool :=
  if bm s =? 0 then None else
  Some (forallb (fun p => match getN (bbits s) p with Some b => b | None => false end)
                (positions H (bm s) (bk s) x)).
End Bloom.

(* bloomfilter.rs:272-293 : asserts k, m (and hasher) equal, then bit-wise OR *)
Fixpoint orl (a b : list bool) : list bool :=
  match a, b with x :: a', y :: b' => (x || y) :: orl a' b' | _, _ => [] end.
Definition bloom_union (a b : bloom) : option bloom :=
  if (bk a =? bk b) && (bm a =? bm b) then Some {| bm := bm a; bk := bk a; bbits := orl (bbits a) (bbits b) |} else None.

Definition bloom_clear (s : bloom) : bloom := {| bm := bm s; bk := bk s; bbits := repeat false (length (bbits s)) |}.
Definition bloom_is_empty (s : bloom) : bool := forallb negb (bbits s).
Definition bloom_ones (s : bloom) : N := N.of_nat (length (filter (fun b => b) (bbits s))).
