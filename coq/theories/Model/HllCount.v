(* Model/HllCount.v — src/hyperloglog/mod.rs:201-326 : am, neighbor_search_startpoints, estimate_bias,
   linear_counting, threshold, count.  Written once over the abstract arithmetic record [arith] of
   Model/TDigest.v, so that it runs on native binary64 floats (driver-supplied record) and can be
   reasoned about with exact rationals.  Definitions only.  [None] = the Rust code panics.

   Conventions
   * usize values that are only used as indexes are [nat]; [b], register values, thresholds and the
     result are [N].
   * every table / array access goes through [nth_error] (or [getN] = [nth_error] at [N.to_nat]).
   * a decimal literal [(neg, d, e)] of Gen/HllData.v denotes (-1)^neg * d / 10^e and is converted with ONE
     division [ofN d / ofN (10^e)]; when d < 2^53 and e <= 22 both operands are exact binary64 numbers, so the
     correctly rounded quotient is the correctly rounded value of the literal = what rustc produces
     ([lits_convertible] below is that side condition, checked over all tables in Proofs/HllTables.v).
   * POW2MINX[x] is NOT converted from its literal: it is the exact power 2^-x, obtained by multiplying by
     [ahalf] x times from [aone] (exact in binary64 for x <= 1022, exact in Q).  Proofs/HllTables.v
     ([pow2minx_table]) shows every literal of the table lies strictly within half an ulp of 2^-x.
   * [fabs x] is [if x < 0 then 0 - x else x]; it differs from f64::abs only in the sign of a zero result and
     on NaN payloads, neither of which the subsequent [<] comparison can observe.
   * f64's [Sum] starts from -0.0 in the installed toolchain, the model starts from [azero]; the register
     list is non-empty and all summands are positive, so the first addition gives the same value. *)
From PDS Require Export Model.TDigest Gen.HllData.

Inductive ord3 := Less | Equal | Greater.
(* core::slice::binary_search_by result *)
Inductive bsres := BsOk (i : nat) | BsErr (i : nat).

Section HllCount.
Variable A : arith.
Notation T := (aT A). Notation zero := (azero A). Notation one := (aone A). Notation half := (ahalf A).
Notation add := (aadd A). Notation sub := (asub A). Notation mul := (amul A). Notation div := (adiv A).
Notation leb := (aleb A). Notation ltb := (altb A).
Variable ofN : N -> T.      (* usize as f64 ; exact below 2^53 *)
Variable ln : T -> T.       (* f64::ln *)
Variable trunc : T -> N.    (* f64 as usize : toward zero, negative and NaN -> 0, saturating *)

Definition of_dlit (l : dlit) : T :=
  let '(neg, d, e) := l in
  let q := div (ofN d) (ofN (10 ^ e)) in
  if neg then sub zero q else q.

Definition fabs (x : T) : T := if ltb x zero then sub zero x else x.

(* f64::partial_cmp : match (a <= b, a >= b) { (false,false) => None, (false,true) => Greater,
                                               (true,false) => Less, (true,true) => Equal } *)
Definition pcmp (a b : T) : option ord3 :=
  match leb a b, leb b a with
  | false, false => None
  | false, true => Some Greater
  | true, false => Some Less
  | true, true => Some Equal
  end.

(* data.rs:4020 POW2MINX : entry x is 2^-x ; the table has as many entries as the literal table *)
Fixpoint pow_tab (l : list dlit) (p : T) : list T :=
  match l with [] => [] | _ :: r => p :: pow_tab r (mul p half) end.
Definition POW2MINX : list T := pow_tab pow2minx_data one.

(* mod.rs:201-213 am *)
Definition h_am (m : N) : T :=
  if am_cut1 <=? m then div (of_dlit am_c1) (add one (div (of_dlit am_c2) (ofN m)))
  else if am_cut2 <=? m then of_dlit am_c3
  else if am_cut3 <=? m then of_dlit am_c4
  else of_dlit am_c5.

(* core::slice::binary_search_by, probe compared to [e] by partial_cmp().unwrap() (mod.rs:217) :
     size = len; if size == 0 { return Err(0) } base = 0;
     while size > 1 { half = size/2; mid = base+half; cmp = f(a[mid]);
                      base = if cmp == Greater { base } else { mid }; size -= half }
     cmp = f(a[base]); if cmp == Equal { Ok(base) } else { Err(base + (cmp == Less)) }
   [fuel] bounds the number of loop iterations; [length arr] is always enough (size strictly decreases). *)
Fixpoint bs_loop (fuel : nat) (arr : list T) (e : T) (size base : nat) : option nat :=
  if (size <=? 1)%nat then Some base
  else match fuel with
       | O => None
       | S f =>
           let hf := (size / 2)%nat in
           let mid := (base + hf)%nat in
           do a <- nth_error arr mid;
           do c <- pcmp a e;
           bs_loop f arr e (size - hf)%nat (match c with Greater => base | _ => mid end)
       end.

Definition binary_search (arr : list T) (e : T) : option bsres :=
  let size := length arr in
  if (size =? 0)%nat then Some (BsErr 0)
  else
    do base <- bs_loop size arr e size 0%nat;
    do a <- nth_error arr base;
    do c <- pcmp a e;
    Some (match c with
          | Equal => BsOk base
          | Less => BsErr (base + 1)
          | Greater => BsErr base
          end).

(* mod.rs:215-232 neighbor_search_startpoints *)
Definition startpoints (arr : list T) (e : T) : option (option nat * option nat) :=
  do r <- binary_search arr e;
  Some (match r with
        | BsOk i => (Some i, Some i)
        | BsErr i =>
            if (i =? 0)%nat then (None, Some 0%nat)
            else if (i =? length arr)%nat then (Some (i - 1)%nat, None)
            else (Some (i - 1)%nat, Some i)
        end).

(* mod.rs:242-272 : one iteration of [for neighbor in &mut neighbors] ; returns (idx, idx_left', idx_right') *)
Definition nb_step (arr : list T) (e : T) (il ir : option nat) : option (nat * option nat * option nat) :=
  do2 (right_instead_left, idx) <-
    match il, ir with
    | Some i_left, Some i_right =>
        do al <- nth_error arr i_left;
        let delta_left := fabs (sub al e) in
        do ar <- nth_error arr i_right;
        let delta_right := fabs (sub ar e) in
        if ltb delta_right delta_left then Some (true, i_right) else Some (false, i_left)
    | Some i_left, None => Some (false, i_left)
    | None, Some i_right => Some (true, i_right)
    | None, None => None                                  (* panic!("neighborhood search failed") *)
    end;
  if right_instead_left
  then Some (idx, il, if (idx <? length arr - 1)%nat then Some (idx + 1)%nat else None)
  else Some (idx, if (0 <? idx)%nat then Some (idx - 1)%nat else None, ir).

(* the K iterations; neighbours in the order they are stored into the array *)
Fixpoint nb_loop (k : nat) (arr : list T) (e : T) (il ir : option nat) : option (list nat) :=
  match k with
  | O => Some []
  | S k' =>
      do2 (x, ir') <- nb_step arr e il ir;
      let '(idx, il') := x in
      do rest <- nb_loop k' arr e il' ir';
      Some (idx :: rest)
  end.

(* neighbors.iter().map(|&i| bias_data[i]).sum::<f64>() : left to right from zero *)
Fixpoint sum_bias (bias : list T) (nbs : list nat) (acc : T) : option T :=
  match nbs with
  | [] => Some acc
  | i :: r => do x <- nth_error bias i; sum_bias bias r (add acc x)
  end.

(* TABLE[self.b - OFFSET] ; the usize subtraction underflows (panics) below the offset *)
Definition row_of {X} (tbl : list X) (off b : N) : option X :=
  if b <? off then None else getN tbl (b - off).

(* mod.rs:234-277 estimate_bias *)
Definition estimate_bias (b : N) (e : T) : option T :=
  do row <- row_of raw_estimate_data raw_estimate_data_offset b;
  let lookup_array := map of_dlit row in
  do2 (idx_left, idx_right) <- startpoints lookup_array e;
  if (length lookup_array <? N.to_nat bias_k)%nat then None        (* assert!(lookup_array.len() >= K) *)
  else
    do neighbors <- nb_loop (N.to_nat bias_k) lookup_array e idx_left idx_right;
    do brow <- row_of bias_data bias_data_offset b;
    let bias := map of_dlit brow in
    do s <- sum_bias bias neighbors zero;
    Some (div s (ofN bias_k)).

(* mod.rs:279-283 linear_counting *)
Definition linear_counting (m : T) (v : N) : T := mul m (ln (div m (ofN v))).

(* mod.rs:285-287 threshold *)
Definition h_threshold (b : N) : option N := row_of threshold_data threshold_data_offset b.

(* registers.iter().map(|&x| POW2MINX[x as usize]).sum::<f64>() *)
Fixpoint sum_regs (tab : list T) (regs : list N) (acc : T) : option T :=
  match regs with
  | [] => Some acc
  | x :: r => do p <- nth_error tab (N.to_nat x); sum_regs tab r (add acc p)
  end.

(* bytecount::count(&registers, 0) *)
Definition count_zeros (regs : list N) : N :=
  fold_left (fun c x => if x =? 0 then c + 1 else c) regs 0.

(* mod.rs:291-300 : e = am * m * m * z *)
Definition h_e (regs : list N) : option T :=
  let m := ofN (lenN regs) in
  do s <- sum_regs POW2MINX regs zero;
  let z := div one s in
  Some (mul (mul (mul (h_am (lenN regs)) m) m) z).

(* mod.rs:289-326 count *)
Definition h_count (b : N) (regs : list N) : option N :=
  let m := ofN (lenN regs) in
  do e <- h_e regs;
  do e_star <- (if leb e (mul (of_dlit small_range_factor) m)
                then do bias <- estimate_bias b e; Some (sub e bias)
                else Some e);
  let v := count_zeros regs in
  let h := if v =? 0 then e_star else linear_counting m v in
  do thr <- h_threshold b;
  if leb h (ofN thr) then Some (trunc h) else Some (trunc e_star).

End HllCount.

(* side condition of [of_dlit] : digits < 2^53 and decimal exponent <= 22 *)
Definition dlit_convertible (l : dlit) : bool := let '(_, d, e) := l in (d <? 2 ^ 53) && (e <=? 22).
Definition lits_convertible : bool :=
  forallb (forallb dlit_convertible) raw_estimate_data && forallb (forallb dlit_convertible) bias_data &&
  forallb dlit_convertible [am_c1; am_c2; am_c3; am_c4; am_c5; small_range_factor].
