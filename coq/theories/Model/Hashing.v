(* Model/Hashing.v — src/hash_utils.rs HashIterBuilder / HashIter (enhanced double hashing).
   [H iv v] is the 64-bit [Hasher::finish()] after [write_usize(iv)] (if any) and hashing the
   value [v] (if any). Every theorem quantifies over all [H]. Release semantics: u64 arithmetic
   wraps (hash_utils.rs:181); debug builds panic where the wrap bites (needs m > 2^32). *)
From PDS Require Export Base.Util.

Definition hashfn := option N -> option N -> N.

Section Hashing.
Variable H : hashfn.

(* hash_utils.rs:112-113,129-137 *)
Definition h1 (m x : N) : N := H (Some 0) (Some x) mod m.
Definition h2 (m x : N) : N := H (Some 1) (Some x) mod m.
(* hash_utils.rs:118-126: f[i] = hash(write_usize(i+2)) % m *)
Definition fi (m i : N) : N := H (Some (i + 2)) None mod m.
(* hash_utils.rs:177-186 *)
Definition pos (m x i : N) : N :=
  u64 (u64 (h1 m x + u64 ((i mod m) * h2 m x)) + fi m i) mod m.
Definition positions (m k x : N) : list N := map (pos m x) (Nseq 0 (N.to_nat k)).
End Hashing.
